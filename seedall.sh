#!/bin/bash
# runs every seeded change against the check of its property (and the extra checks listed), writes seeded/RESULTS.txt
cd /verif
: > seeded/RESULTS.txt
run() { ./seedrun.sh "$1" "$2" 2>&1 | grep -v WARNING >> seeded/RESULTS.txt; }
for d in seeded/C*-m* seeded/C*-w2m* seeded/C*-w3m* seeded/C*-w4m* seeded/C*-w5m* seeded/C*-w6m* seeded/C*-w7m* seeded/C*-w8m* seeded/C*-w9m* seeded/C*-w10m* seeded/C*-w11m* seeded/C*-w12m*; do
  id=$(basename $d); prop=${id%%-*}
  run $id $prop
done
# cross-checks: changes whose natural detector is (also) another property's check
run C06-m1 C02
run C18-m1 C17
run C18-m1 C12
run C03-m1 C18
run C16-m2 C02
run C16-w2m1 C12
run C16-w2m2 C17
run C16-w2m2 C12
run C12-w2m1 C16
run C12-w2m1 C02
run C12-w2m3 C17
run C02-w2m1 C16
run C17-w2m1 C12
run C06-w3m1 C12
run C06-w3m3 C03
run C18-w3m1 C17
run C18-w3m1 C12
run C08-w4m2 C12
run C10-w2m3 C09
run C06-w3m1 C09
run C17-w4m3 C02
run C16-w5m1 C12
run C16-w5m2 C17
run C12-w5m2 C09
run C09-w5m2 C12
run C12-w5m1 C05
run C10-w6m3 C12
run C06-w6m1 C17
run C03-w6m1 C18
run C16-w7m1 C17
run C16-w7m3 C17
run C12-w7m3 C10
run C12-w7m2 C02
run C12-w11m2 C17
run C16-w11m3 C17
run C17-w4m2 C02
run C17-w4m2 C16
