#!/bin/bash
# runs every seeded change against the check of its property (and the extra checks listed), writes seeded/RESULTS.txt
cd /verif
: > seeded/RESULTS.txt
run() { ./seedrun.sh "$1" "$2" >> seeded/RESULTS.txt 2>&1; }
for d in seeded/C*-m*; do
  id=$(basename $d); prop=${id%%-*}
  run $id $prop
done
# cross-checks: changes whose natural detector is another property's check
run C06-m1 C02
run C18-m1 C17
run C03-m1 C18
run C16-m2 C02
