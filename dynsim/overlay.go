package main

import (
	"crypto/sha256"
	"encoding/hex"
	"encoding/json"
	"fmt"
	"go/ast"
	"go/parser"
	"go/token"
	"os"
	"path/filepath"
	"sort"
	"strconv"
	"strings"
)

const modPath = "github.com/cloudwego/dynamicgo"

// skipDirs are not part of the simulated library (or not Go).
var skipDirs = map[string]bool{".git": true, "testdata": true, "tools": true, "scripts": true, "image": true, "licenses": true}

// noYieldPkgs get no yields (low-level memory helpers; nosplit-heavy).
var noYieldPkgs = map[string]bool{"internal/rt": true, "internal/simrt": true, "internal/verifsim": true}

type edit struct {
	off  int
	del  int
	text string
}

type overlayStats struct {
	Files       int      `json:"files_rewritten"`
	YieldSites  int      `json:"yield_sites"`
	ProbeSites  int      `json:"probe_sites"`
	Pools       []string `json:"pools"`
	Flipped     []string `json:"constraint_flipped"`
	GrowthSites []string `json:"growth_sites_rewritten"`
}

// repoGoFiles lists non-test .go files of the library, relative to repo.
func repoGoFiles(repo string) ([]string, error) {
	var out []string
	err := filepath.Walk(repo, func(p string, info os.FileInfo, err error) error {
		if err != nil {
			return err
		}
		rel, _ := filepath.Rel(repo, p)
		if info.IsDir() {
			if rel != "." && (skipDirs[filepath.Base(p)] || rel == "native" || strings.HasPrefix(filepath.Base(p), ".")) {
				return filepath.SkipDir
			}
			return nil
		}
		if strings.HasSuffix(p, ".go") && !strings.HasSuffix(p, "_test.go") {
			out = append(out, rel)
		}
		return nil
	})
	sort.Strings(out)
	return out, err
}

// treeHash identifies (library sources + simulator sources + generator version).
func treeHash(repo, verif string) (string, error) {
	h := sha256.New()
	h.Write([]byte("overlaygen-v9\n"))
	if exe, err := os.Executable(); err == nil {
		if b, err := os.ReadFile(exe); err == nil {
			h.Write(b)
		}
	}
	files, err := repoGoFiles(repo)
	if err != nil {
		return "", err
	}
	for _, extra := range []string{"go.mod", "go.sum"} {
		files = append(files, extra)
	}
	for _, f := range files {
		b, err := os.ReadFile(filepath.Join(repo, f))
		if err != nil {
			return "", err
		}
		fmt.Fprintf(h, "%s %d\n", f, len(b))
		h.Write(b)
	}
	for _, d := range []string{"sim/simrt", "sim/verifsim"} {
		ents, err := os.ReadDir(filepath.Join(verif, d))
		if err != nil {
			return "", err
		}
		for _, e := range ents {
			if e.IsDir() || !strings.HasSuffix(e.Name(), ".go") {
				continue
			}
			b, err := os.ReadFile(filepath.Join(verif, d, e.Name()))
			if err != nil {
				return "", err
			}
			fmt.Fprintf(h, "%s/%s %d\n", d, e.Name(), len(b))
			h.Write(b)
		}
	}
	return hex.EncodeToString(h.Sum(nil))[:16], nil
}

func applyEdits(src []byte, eds []edit) []byte {
	sort.SliceStable(eds, func(i, j int) bool { return eds[i].off > eds[j].off })
	out := src
	for _, e := range eds {
		n := make([]byte, 0, len(out)+len(e.text))
		n = append(n, out[:e.off]...)
		n = append(n, e.text...)
		n = append(n, out[e.off+e.del:]...)
		out = n
	}
	return out
}

func hasDirective(doc *ast.CommentGroup, names ...string) bool {
	if doc == nil {
		return false
	}
	for _, c := range doc.List {
		for _, n := range names {
			if strings.HasPrefix(c.Text, n) {
				return true
			}
		}
	}
	return false
}

func recvName(fd *ast.FuncDecl) string {
	if fd.Recv == nil || len(fd.Recv.List) == 0 {
		return ""
	}
	t := fd.Recv.List[0].Type
	star := ""
	if s, ok := t.(*ast.StarExpr); ok {
		t = s.X
		star = "*"
	}
	if id, ok := t.(*ast.Ident); ok {
		return "(" + star + id.Name + ")."
	}
	return "(?)."
}

// genOverlay writes transformed sources under out and returns the overlay map.
// flavour: "native" or "portable" (portable flips the amd64&&!go1.25 constraints).
func genOverlay(repo, verif, out, flavour string) (map[string]string, *overlayStats, error) {
	files, err := repoGoFiles(repo)
	if err != nil {
		return nil, nil, err
	}
	st := &overlayStats{}
	replace := map[string]string{}
	var siteNames []string
	var siteFiles []string // source file of every yield / probe site (for the reach report of the evidence files)
	fset := token.NewFileSet()
	simrtImport := `;import simrt "` + modPath + `/internal/simrt"`

	for _, rel := range files {
		dir := filepath.ToSlash(filepath.Dir(rel))
		base := filepath.Base(rel)
		src, err := os.ReadFile(filepath.Join(repo, rel))
		if err != nil {
			return nil, nil, err
		}
		var eds []edit
		needImport := false

		// constraint flip (text level, first line)
		if flavour == "portable" {
			if strings.HasPrefix(string(src), "//go:build amd64 && !go1.25") {
				eds = append(eds, edit{0, len("//go:build amd64 && !go1.25"), "//go:build ignore_portable_sim"})
				st.Flipped = append(st.Flipped, rel)
			} else if strings.HasPrefix(string(src), "//go:build !amd64 || go1.25") {
				eds = append(eds, edit{0, len("//go:build !amd64 || go1.25"), "//go:build !ignore_portable_sim"})
				st.Flipped = append(st.Flipped, rel)
			}
		}

		// growth sites of the converters' output buffer: make([]byte, l, c) -> simrt.MakeBytes(l, c)
		if rel == "internal/rt/fastmem.go" || rel == "conv/j2t/impl_amd64.go" {
			for _, pat := range []string{"tmp := make([]byte, l, c)", "tmp := make([]byte, len(*buf), c)"} {
				if i := strings.Index(string(src), pat); i >= 0 {
					repl := strings.Replace(pat, "make([]byte, ", "simrt.MakeBytes(", 1)
					eds = append(eds, edit{i, len(pat), repl})
					st.GrowthSites = append(st.GrowthSites, rel)
					if rel == "internal/rt/fastmem.go" {
						// package rt gets no yields, so it needs the import added here
						if j := strings.Index(string(src), "package rt"); j >= 0 {
							eds = append(eds, edit{j + len("package rt"), 0, simrtImport})
						}
					}
				}
			}
		}
		generated := strings.HasPrefix(base, "native_text_") || strings.HasPrefix(base, "native_subr_")
		if !generated {
			f, err := parser.ParseFile(fset, filepath.Join(repo, rel), src, parser.ParseComments)
			if err != nil {
				return nil, nil, fmt.Errorf("parse %s: %v", rel, err)
			}
			off := func(p token.Pos) int { return fset.Position(p).Offset }
			pkgShort := dir
			// pools
			ast.Inspect(f, func(n ast.Node) bool {
				vs, ok := n.(*ast.ValueSpec)
				if !ok {
					return true
				}
				for i, v := range vs.Values {
					cl, ok := v.(*ast.CompositeLit)
					if !ok {
						continue
					}
					se, ok := cl.Type.(*ast.SelectorExpr)
					if !ok {
						continue
					}
					x, ok := se.X.(*ast.Ident)
					if !ok || x.Name != "sync" || se.Sel.Name != "Pool" {
						continue
					}
					name := "?"
					if i < len(vs.Names) {
						name = vs.Names[i].Name
					}
					full := pkgShort + "." + name
					eds = append(eds, edit{off(se.Pos()), off(se.End()) - off(se.Pos()), "simrt.Pool"})
					eds = append(eds, edit{off(cl.Lbrace) + 1, 0, "Name: " + strconv.Quote(full) + ", "})
					st.Pools = append(st.Pools, full)
					needImport = true
				}
				return true
			})
			// yields and probes
			if !noYieldPkgs[dir] {
				for _, d := range f.Decls {
					fd, ok := d.(*ast.FuncDecl)
					if !ok || fd.Body == nil {
						continue
					}
					if fd.Name.Name == "init" || hasDirective(fd.Doc, "//go:nosplit", "//go:linkname", "//go:noescape", "//go:norace") {
						continue
					}
					id := len(siteNames)
					siteNames = append(siteNames, pkgShort+"."+recvName(fd)+fd.Name.Name)
					siteFiles = append(siteFiles, rel)
					extra := ""
					if dir == "internal/caching" && fd.Name.Name == "StrHash" {
						// seam: runtime.strhash is keyed by a per-process random seed; inside a world the
						// hash is a pure function of the string and a tape-chosen seed
						extra = "if simrt.HashSeam() { return simrt.StrHash(s) };"
					}
					eds = append(eds, edit{off(fd.Body.Lbrace) + 1, 0, "simrt.Yield(" + strconv.Itoa(id) + ");" + extra})
					st.YieldSites++
					needImport = true
					// probes on `case types.ERR_XXX:` / `case ERR_XXX:` clauses
					ast.Inspect(fd.Body, func(n ast.Node) bool {
						cc, ok := n.(*ast.CaseClause)
						if !ok || len(cc.List) != 1 {
							return true
						}
						nm := ""
						switch e := cc.List[0].(type) {
						case *ast.SelectorExpr:
							nm = e.Sel.Name
						case *ast.Ident:
							nm = e.Name
						}
						if !strings.HasPrefix(nm, "ERR_") {
							return true
						}
						pid := len(siteNames)
						siteNames = append(siteNames, pkgShort+"."+fd.Name.Name+"#"+nm)
						siteFiles = append(siteFiles, rel)
						eds = append(eds, edit{off(cc.Colon) + 1, 0, "simrt.Probe(" + strconv.Itoa(pid) + ");"})
						st.ProbeSites++
						return true
					})
				}
			}
			if needImport {
				// after the package clause: `package x;import simrt "..."`
				eds = append(eds, edit{off(f.Name.End()), 0, simrtImport})
				// is "sync" still used?
				syncUsed := false
				ast.Inspect(f, func(n ast.Node) bool {
					se, ok := n.(*ast.SelectorExpr)
					if !ok {
						return true
					}
					if x, ok := se.X.(*ast.Ident); ok && x.Name == "sync" {
						if !(se.Sel.Name == "Pool" && isPoolLitType(f, se)) {
							syncUsed = true
						}
					}
					return true
				})
				if !syncUsed {
					for _, im := range f.Imports {
						if im.Path.Value == `"sync"` && im.Name == nil {
							eds = append(eds, edit{off(im.Path.Pos()), 0, "_ "})
						}
					}
				}
			}
		}
		if len(eds) == 0 {
			continue
		}
		dst := filepath.Join(out, "src", rel)
		if err := os.MkdirAll(filepath.Dir(dst), 0o755); err != nil {
			return nil, nil, err
		}
		if err := os.WriteFile(dst, applyEdits(src, eds), 0o644); err != nil {
			return nil, nil, err
		}
		replace[filepath.Join(repo, rel)] = dst
		st.Files++
	}

	// simulator packages
	addPkg := func(srcDir, dstRel string, gen map[string][]byte) error {
		ents, err := os.ReadDir(srcDir)
		if err != nil {
			return err
		}
		for _, e := range ents {
			if e.IsDir() || !strings.HasSuffix(e.Name(), ".go") || strings.HasSuffix(e.Name(), "_test.go") {
				continue
			}
			if _, ok := gen[e.Name()]; ok {
				continue
			}
			replace[filepath.Join(repo, dstRel, e.Name())] = filepath.Join(srcDir, e.Name())
		}
		for name, body := range gen {
			dst := filepath.Join(out, "src", dstRel, name)
			if err := os.MkdirAll(filepath.Dir(dst), 0o755); err != nil {
				return err
			}
			if err := os.WriteFile(dst, body, 0o644); err != nil {
				return err
			}
			replace[filepath.Join(repo, dstRel, name)] = dst
		}
		return nil
	}
	if sj, err := json.Marshal(map[string][]string{"names": siteNames, "files": siteFiles}); err == nil {
		os.WriteFile(filepath.Join(out, "sites.json"), sj, 0o644)
	}
	var sb strings.Builder
	sb.WriteString("package simrt\n\n// generated by dynsim gen-overlay\nvar SiteNames = []string{\n")
	for _, s := range siteNames {
		sb.WriteString("\t" + strconv.Quote(s) + ",\n")
	}
	sb.WriteString("}\n")
	if err := addPkg(filepath.Join(verif, "sim/simrt"), "internal/simrt", map[string][]byte{"sites.go": []byte(sb.String())}); err != nil {
		return nil, nil, err
	}
	if err := addPkg(filepath.Join(verif, "sim/verifsim"), "internal/verifsim", map[string][]byte{
		"zz_flavour.go": []byte("package main\n\nconst buildFlavour = \"" + flavour + "\"\n")}); err != nil {
		return nil, nil, err
	}
	// flavour switch inside internal/native
	simuse := `package native

import "unsafe"

// generated by dynsim gen-overlay: lets the simulator choose the SIMD flavour of the "node".
type simStubs struct {
	q, i, f, j, t interface{}
}

var simSaved [3]*simStubs

// SimUse selects 0=avx2 1=avx 2=sse. The loader is invoked at most once per flavour.
func SimUse(fl int) {
	if s := simSaved[fl]; s != nil {
		__Quote = s.q.(func(s unsafe.Pointer, nb int, dp unsafe.Pointer, dn unsafe.Pointer, flags uint64) int)
		__I64toa = s.i.(func(out unsafe.Pointer, val int64) (ret int))
		__F64toa = s.f.(func(out unsafe.Pointer, val float64) (ret int))
		__j2t_fsm_exec = s.j.(func(fsm unsafe.Pointer, buf unsafe.Pointer, src unsafe.Pointer, flag uint64) (ret uint64))
		__tb_skip = s.t.(func(st unsafe.Pointer, s unsafe.Pointer, n int, t uint8) (ret int))
		return
	}
	switch fl {
	case 0:
		useAVX2()
	case 1:
		useAVX()
	case 2:
		useSSE()
	}
	simSaved[fl] = &simStubs{__Quote, __I64toa, __F64toa, __j2t_fsm_exec, __tb_skip}
}
`
	dst := filepath.Join(out, "src", "internal/native/zz_simuse_amd64.go")
	os.MkdirAll(filepath.Dir(dst), 0o755)
	if err := os.WriteFile(dst, []byte(simuse), 0o644); err != nil {
		return nil, nil, err
	}
	replace[filepath.Join(repo, "internal/native/zz_simuse_amd64.go")] = dst

	ov := map[string]interface{}{"Replace": replace}
	b, _ := json.MarshalIndent(ov, "", " ")
	if err := os.WriteFile(filepath.Join(out, "overlay.json"), b, 0o644); err != nil {
		return nil, nil, err
	}
	sort.Strings(st.Pools)
	return replace, st, nil
}

// isPoolLitType reports whether se is the Type of a composite literal (the rewritten case).
func isPoolLitType(f *ast.File, se *ast.SelectorExpr) bool {
	found := false
	ast.Inspect(f, func(n ast.Node) bool {
		if cl, ok := n.(*ast.CompositeLit); ok && cl.Type == se {
			found = true
			return false
		}
		return !found
	})
	return found
}
