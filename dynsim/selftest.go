package main

import (
	"flag"
	"fmt"
	"os"
	"sort"
	"strings"
	"time"
)

// cmdSelftest proves determinism: the same (property, seed, index) must give the same digest
// (hash of every draw and every noted result) and step count in fresh processes started with
// different GOMAXPROCS environments, different chunkings and worker counts.
func cmdSelftest(args []string) int {
	fs := flag.NewFlagSet("selftest", flag.ExitOnError)
	propsArg := fs.String("props", "", "comma-separated property ids (default: all claimed)")
	n := fs.Int("n", 200, "worlds per property")
	fs.Parse(args)
	var ids []string
	if *propsArg != "" {
		ids = strings.Split(*propsArg, ",")
	} else {
		for id := range cfgs {
			ids = append(ids, id)
		}
		sort.Strings(ids)
	}
	seed := envSeed()
	bad := 0
	for _, id := range ids {
		cfg := cfgs[id]
		if cfg == nil {
			fatal2("unknown property %q", id)
		}
		for _, build := range cfg.Builds {
			bin, th, _ := buildSim(build)
			var ref map[uint64]string
			for pass, conf := range []struct {
				gmp     string
				workers int
			}{{"1", 1}, {"4", 16}, {"16", 5}} {
				r := &runner{cfg: cfg, tier: "quick", seed: seed, bin: bin, build: build, simd: "tape", tree: th, deadline: time.Now().Add(20 * time.Minute), digests: map[uint64]string{}, wantDig: true}
				os.Setenv("DYNSIM_SELFTEST_GOMAXPROCS", conf.gmp)
				r.run(uint64(*n), conf.workers)
				for _, v := range r.viols {
					r.digests[v.Index] = "V:" + v.Class
				}
				if pass == 0 {
					ref = r.digests
					continue
				}
				for i := uint64(0); i < uint64(*n); i++ {
					if ref[i] != r.digests[i] {
						bad++
						if bad < 10 {
							fmt.Printf("NONDETERMINISM property=%s build=%s world=%d: %s vs %s (pass %d)\n", id, build, i, ref[i], r.digests[i], pass)
						}
					}
				}
			}
			fmt.Printf("selftest %s/%s: %d worlds x 3 process configurations, %d digest mismatches so far\n", id, build, *n, bad)
		}
	}
	if bad > 0 {
		return 2
	}
	return 0
}
