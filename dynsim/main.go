// Command dynsim is the driver of the dynamicgo deterministic simulator: it generates the build
// overlay from /repo's current working tree, builds the simulation worker inside the library's
// module, fans seeds out to worker processes, attributes crashes through the journal, minimises
// and replays failures, classifies them against known-findings.json and writes the evidence file.
package main

import (
	"bufio"
	"bytes"
	"encoding/hex"
	"encoding/json"
	"flag"
	"fmt"
	"os"
	"os/exec"
	"path/filepath"
	"regexp"
	"runtime"
	"sort"
	"strconv"
	"strings"
	"sync"
	"sync/atomic"
	"syscall"
	"time"

	"verif/sim/simrt"
)

var (
	repoDir  = "/repo"
	verifDir = "/verif"
)

type propCfg struct {
	ID       string
	Level    string
	Quick    int      // worlds
	Thorough int      // worlds
	Builds   []string // build flavours to run: native, race, portable
	Simd     []string // per-run -simd values (nil = tape)
	Rule     string
	RaceDiv  int // the race build runs total/RaceDiv worlds
	// Differential: the per-world comparison digests ("C" lines) of all builds must agree
	Differential bool
	Real         []string
	Stub         []string
}

var stubsCommon = []string{"sync.Pool -> simrt.Pool (tape-chosen recycle/fresh, poison on Put)", "caller-supplied buffers -> simrt arena (exact cap, canary, guard pages)", "GC timing -> explicit runtime.GC() x2 at tape-chosen yields with GODEBUG=clobberfree=1, GOGC=off", "SIMD flavour -> tape-chosen (native.SimUse)"}
var realCommon = []string{"all of github.com/cloudwego/dynamicgo built from /repo's working tree incl. the generated avx2/avx/sse assembly", "thriftgo IDL parser", "protoreflect/protobuf-go (as reference only)"}

var cfgs = map[string]*propCfg{}

func addCfg(c *propCfg) {
	if c.Builds == nil {
		c.Builds = []string{"native"}
	}
	if c.Real == nil {
		c.Real = realCommon
	}
	if c.Stub == nil {
		c.Stub = stubsCommon
	}
	cfgs[c.ID] = c
}

func init() {
	addCfg(&propCfg{ID: "C02", Level: "exploration", Quick: 40000, Thorough: 3000000,
		Rule: "one world per seed index: tape-generated IDL + 1-4 JSON documents rendered from model values with spelling variation, each converted under 2-4 tape-chosen environments (Do/DoInto, output capacity relative to len(json), prefix, canary/guard-page placement, FSM scratch-cache capacities, pool recycling, GC+clobber at yields, SIMD flavour) and compared with a harness-owned reference Thrift encoder. distinct_nontrivial = number of distinct environment signatures (set of knob values x capacity class x SIMD flavour x re-entry kinds fired) among worlds in which at least one non-default environment decision was taken"})
	addCfg(&propCfg{ID: "C16", Level: "exploration", Quick: 40000, Thorough: 3000000, Builds: []string{"native", "portable"},
		Rule: "one world per seed index: IDL with mixed requiredness/defaults/ids beyond 64 and 256, parse options SetOptionalBitmap x UseDefaultValue, one of the 16 write/disallow option combinations; 1-4 inputs presenting a tape-chosen subset of fields (absent / null / present, incl. missing required, unknown members); sub-world j2t (native FSM with shaped ReqsCache so ERR_OOM_BM re-entry fires, dirty pooled bitmaps, failing conversion right before), t2j, or cutting (Value.MarshalTo onto an identical descriptor); oracle = requiredness truth-table model. distinct_nontrivial = distinct (sub-world x option combination x knob x capacity class x flavour) signatures. The same worlds run a second time in the portable build (conv/j2t/impl_fallback.go instead of the native FSM; same truth-table oracle)"})
	addCfg(&propCfg{ID: "C04", Level: "exploration", Quick: 40000, Thorough: 3000000,
		Rule: "one world per seed index: tape-generated IDL and value; 1-4 handles (origin as Node or Value, forks taken at tape-chosen moments); a history of 3-24 steps of SetByPath (existing / insert absent field, map key, one-past-the-end index), SetMany, ReplaceByPath, UnsetByPath (existing / absent), id- and name-addressed, with injected failing operations (wrong-kind path, type-mismatching replacement, error node) and GC+clobber at yields; after every step every live handle is decoded by the harness decoder and compared with its model tree. distinct_nontrivial = distinct (handle count x root kind x op-kind multiset) signatures"})
	addCfg(&propCfg{ID: "C05", Level: "exploration", Quick: 30000, Thorough: 2000000,
		Rule: "one world per seed index: knobs (DefaultNodeSliceCap, StoreChildrenByIdShreshold, StoreChildrenByIntHashShreshold) x options (recurse/lazy, StoreChildrenById, StoreChildrenByHash, NotScanParentNode, UseNativeSkip); 1-4 loads of tape-generated values into a PathNode that is fresh, pooled, freed+recycled, or reused (with ResetValue / ResetAll / nothing) after a previous larger/smaller load; after each load the tree is compared child by child (path, byte span) with the harness decoder's view, marshalled (Marshal / MarshalIntoBuffer with canary) and decoded again, then edited (SetField/SetByStr/SetByInt/clear/replace + lookups) and marshalled again. distinct_nontrivial = distinct (options x thresholds x reload kind) signatures"})
	addCfg(&propCfg{ID: "C12", Level: "exploration", Quick: 20000, Thorough: 1500000, Builds: []string{"native", "race"}, RaceDiv: 5,
		Rule: "one world per seed index: 2-4 simulated tasks, each a program of 3-10 calls (j2t/t2j Do and DoInto, GetByPath, Children, PathNode Load+Marshal, MarshalTo, descriptor lookups, Interface; 1 in 5 fed a truncated input so that it fails mid-way) on ONE shared descriptor, shared converter values and shared inputs placed in read-only pages. Phase 1: every call alone with pristine pools; phase 2a: the same calls back to back with dirty pools; phase 2b: the programs interleaved by the tape-driven scheduler at function-entry/pool yields with pool objects recycled across tasks (poisoned on Put); phase 3: churn calls recycling every pool, then every retained result is re-checked, inputs are checksummed and the descriptor graph deep-hashed. The race build runs the same worlds under ThreadSanitizer with a hand-off that is invisible to it. distinct_nontrivial = distinct (task count x switch rate x pool-switching x knob x flavour) signatures among worlds with at least one task switch",
		Stub: append([]string{"goroutine scheduling -> exactly one runnable task, next task chosen by the tape at yields (blind hand-off, GOMAXPROCS=1)"}, stubsCommon...)})
	addCfg(&propCfg{ID: "C06", Level: "fault_enumeration", Quick: 30000, Thorough: 120000,
		Rule: "one world per seed index: a well-formed Thrift message + its JSON rendering generated from the tape, then 2-7 stored-byte faults placed through the reference encoder's structure map (truncation at any offset; count/length fields set to 2^31-1, 2^32-1, 2^31, off-by-small; type-byte substitution incl. STOP bytes; nesting to 70/1100/5000/66000 levels; splice; random multi-byte; second-order mutation of a damaged message; JSON: truncation, bad escapes, lone surrogates, unbalanced brackets, 1 MiB of '[') each fed to a tape-chosen subset of entry points (Node.Children, PathNode.Load+Marshal, Value.GetByPath, Node.Interface, Value.Foreach, Value.MarshalTo, t2j, j2t Do/DoInto, SkipGo, SkipNative, ReadAny, ReadAnyWithDesc, UnwrapBinaryMessage) with the input flush against a PROT_NONE page at its end or start or in read-only pages, under recycled pools and all SIMD flavours. Oracle: no panic / fatal / signal, logical-step budget 400*len+20000 yields, allocation budget 256*len+1MiB (GC off, single thread: exact). One world in three is a Protobuf world instead (prop_c06p.go): a reference-encoded message of a generated proto3 schema damaged at its structural marks (truncation; length prefixes and varints to 2^31-1 / 2^32-1 / 2^63 / 2^64-1 / off-by-small; tag substitution: every wire type incl. groups and 6/7, field number 0 and 2^29-1; over-long and unterminated varints; 70-20000 nested levels; group tags; random bytes; second-order) and damaged JSON, fed to p2j.Do, j2p.Do/DoInto, proto/generic Value.GetByPath / Interface / Fields / GetMany / MarshalTo, Node.Children, PathNode.Load+Marshal, proto/binary ReadAnyWithDesc and Skip, protowire Consume*; allocation budget factor 1024 for tree-building entry points, plus the schema-fixed cost of requires-bitmaps and written defaults. In the thorough tier every Protobuf world with a message of at most 300 bytes also sweeps it exhaustively (every truncation offset; every tag / length / varint mark x 11 boundary values, all 8 wire types, field numbers 0 / 2^29-1 / 2^32-1, an over-long varint) through p2j, Children, Interface, MarshalTo and ReadAnyWithDesc, and every Thrift world additionally sweeps ITS message exhaustively: every truncation offset and every structural mark x every boundary value (counts/lengths: 8 values + off-by-1/2; type bytes: 22 values; field ids: 4 values) through Children, t2j, SkipGo, SkipNative and MarshalTo with the input flush against an unmapped page. distinct_nontrivial = distinct sets of (fault kind > entry point) pairs executed in a world",
	})
	addCfg(&propCfg{ID: "C03", Level: "exploration", Quick: 30000, Thorough: 2000000,
		Rule: "one world per seed index: IDL + 1-4 conforming messages (every int boundary, float classes incl. subnormal/-0 and, in 1/6 of the messages, NaN/+-Inf; strings with escape-relevant code points and lengths around 15-17/31-33/4095-4097; int- and string-keyed maps; unknown fields) encoded by the harness encoder; each message converted under 2-4 environments (Do / DoInto with capacity classes incl. 2*len(src)+delta and expected-k, prefix, canary / guard page; conv.DefaultBufferSize 1/16/4096/65536; recycled poisoned pools; a failing conversion right before; GC+clobber; SIMD flavour; options Int642String, ByteAsUint8, NoBase64Binary, DisallowUnknownField, UseNativeSkip, EnableValueMapping). Oracle: error, or output parses with encoding/json (UseNumber, strict) and denotes exactly the model; identical across environments. distinct_nontrivial = distinct (option set x buffer size x capacity modes x flavour) signatures"})
	addCfg(&propCfg{ID: "C18", Level: "exploration", Quick: 20000, Thorough: 1500000, Builds: []string{"native", "portable"}, Differential: true,
		Rule: "one world per seed index: IDL + 1-4 JSON documents (conforming, or with one value spelled with a kind-contradicting literal) + scalars; the workload is generated completely before any library call so that both builds replay identical tapes. native build: every conversion runs under avx2, avx and sse in-process (native.SimUse) and the outputs must be identical, contradicting documents rejected by every flavour; SkipNative vs SkipGo on the encoded values and on truncated ones; EncodeInt64/EncodeFloat64/EncodeString under each flavour against strconv / encoding/json with output capacity classes and the source string flush against a guard page. portable build (overlay flips the amd64&&!go1.25 constraints): same tapes; the driver compares the per-world comparison digests (output bytes or 'rejected', bytes skipped) of both builds. distinct_nontrivial = distinct (doc count x option) signatures",
		Stub: append([]string{"CPU flavour -> native.SimUse(avx2|avx|sse) per operation; portable Go implementation -> second build with flipped build constraints"}, stubsCommon...)})
}

func goEnv() []string {
	env := os.Environ()
	env = append(env, "GOFLAGS=-mod=mod", "GOPROXY=off", "GOSUMDB=off", "GOTOOLCHAIN=local", "CGO_ENABLED=0")
	return env
}

func fatal2(format string, a ...interface{}) {
	fmt.Fprintf(os.Stderr, "dynsim: "+format+"\n", a...)
	os.Exit(2)
}

// buildSim builds (or reuses) the worker for a build flavour and returns its path.
type builtSim struct {
	bin, th string
	st      *overlayStats
}

var builtSims = map[string]builtSim{}

// lockRepo takes a shared advisory lock that seedrun.sh (which temporarily patches /repo) takes
// exclusively, so that a long-running check never builds from a tree that is being experimented on.
func lockRepo() func() {
	if os.Getenv("VERIF_NOLOCK") != "" {
		return func() {}
	}
	os.MkdirAll(filepath.Join(verifDir, ".build"), 0o755)
	f, err := os.OpenFile(filepath.Join(verifDir, ".build", "repo.lock"), os.O_CREATE|os.O_RDWR, 0o644)
	if err != nil {
		return func() {}
	}
	syscall.Flock(int(f.Fd()), syscall.LOCK_SH)
	return func() { syscall.Flock(int(f.Fd()), syscall.LOCK_UN); f.Close() }
}

// buildSim builds (or reuses) the worker for a build flavour; one process sees one tree.
func buildSim(flavour string) (string, string, *overlayStats) {
	if b, ok := builtSims[flavour]; ok {
		return b.bin, b.th, b.st
	}
	unlock := lockRepo()
	bin, th, st := buildSim1(flavour)
	unlock()
	builtSims[flavour] = builtSim{bin, th, st}
	return bin, th, st
}

func buildSim1(flavour string) (string, string, *overlayStats) {
	th, err := treeHash(repoDir, verifDir)
	if err != nil {
		fatal2("tree hash: %v", err)
	}
	dir := filepath.Join(verifDir, ".build", th)
	ovFlavour := "native"
	if flavour == "portable" {
		ovFlavour = "portable"
	}
	ovDir := filepath.Join(dir, "ov-"+ovFlavour)
	bin := filepath.Join(dir, "sim-"+flavour)
	stFile := filepath.Join(ovDir, "stats.json")
	var st overlayStats
	if _, err := os.Stat(bin); err == nil {
		os.Chtimes(dir, time.Now(), time.Now()) // in use: keeps a concurrent check from pruning it
		if b, err := os.ReadFile(stFile); err == nil {
			json.Unmarshal(b, &st)
		}
		return bin, th, &st
	}
	// prune old builds (disk is limited)
	if ents, err := os.ReadDir(filepath.Join(verifDir, ".build")); err == nil {
		for _, e := range ents {
			if fi, err := e.Info(); err == nil && e.Name() != th && time.Since(fi.ModTime()) > 45*time.Minute {
				os.RemoveAll(filepath.Join(verifDir, ".build", e.Name()))
			}
		}
	}
	os.MkdirAll(ovDir, 0o755)
	_, stp, err := genOverlay(repoDir, verifDir, ovDir, ovFlavour)
	if err != nil {
		fatal2("overlay generation failed: %v", err)
	}
	b, _ := json.Marshal(stp)
	os.WriteFile(stFile, b, 0o644)
	args := []string{"build", "-overlay", filepath.Join(ovDir, "overlay.json"), "-o", bin + ".tmp"}
	if flavour == "race" {
		args = append(args, "-race", "-gcflags=all=-d=checkptr=0")
	}
	args = append(args, "./internal/verifsim")
	cmd := exec.Command("go", args...)
	cmd.Dir = repoDir
	cmd.Env = goEnv()
	if flavour == "race" {
		cmd.Env = append(cmd.Env, "CGO_ENABLED=1")
	}
	outb, err := cmd.CombinedOutput()
	if err != nil {
		fatal2("build of simulation worker (%s) failed: %v\n%s", flavour, err, outb)
	}
	os.Rename(bin+".tmp", bin)
	return bin, th, stp
}

type violation struct {
	Index   uint64
	Class   string
	Detail  string
	Facts   map[string]string
	Replay  string
	Build   string
	Simd    string
	Crash   bool
	Stderr  string
	Known   string
	Confirm string
}

type workerSummary struct {
	Worlds     uint64            `json:"worlds"`
	Steps      uint64            `json:"steps"`
	Violations int               `json:"violations"`
	Wall       float64           `json:"wall_s"`
	Stats      map[string]uint64 `json:"stats"`
	Sigs       map[string]uint64 `json:"sigs"`
	Samples    []interface{}     `json:"samples"`
	Pools      []string          `json:"pools"`
	Reached    string            `json:"reached"`
}

// orHex ORs two hex-encoded bitmaps.
func orHex(a, b string) string {
	x, _ := hex.DecodeString(a)
	y, _ := hex.DecodeString(b)
	if len(y) > len(x) {
		x, y = y, x
	}
	for i := range y {
		x[i] |= y[i]
	}
	return hex.EncodeToString(x)
}

type runner struct {
	cfg      *propCfg
	tier     string
	seed     uint64
	bin      string
	build    string
	simd     string
	tree     string
	mu       sync.Mutex
	viols    []*violation
	sum      workerSummary
	done     uint64
	deadline time.Time
	hangs    int32
	trunc    bool
	digests  map[uint64]string
	wantDig  bool
	cmps     map[uint64]string
}

func workerEnv() []string {
	env := os.Environ()
	gmp := "1"
	if v := os.Getenv("DYNSIM_SELFTEST_GOMAXPROCS"); v != "" {
		gmp = v
	}
	env = append(env, "GOMAXPROCS="+gmp, "GODEBUG=clobberfree=1", "GOGC=off", "GORACE=halt_on_error=1 exitcode=66")
	return env
}

// hangSecs: journal silence after which a worker is considered hung.
const hangSecs = 45

var reEnd = regexp.MustCompile(`^E (\d+)(?: ([0-9a-f]{16}) (\d+))?(?: V (\S*) (.*))?$`)

// runChunk runs indices [from,to) in worker processes, restarting after a crash.
func (r *runner) runChunk(from, to uint64) {
	for from < to {
		if time.Now().After(r.deadline) {
			r.mu.Lock()
			r.trunc = true
			r.mu.Unlock()
			return
		}
		args := []string{"-prop", r.cfg.ID, "-tier", r.tier, "-seed", fmt.Sprint(r.seed), "-from", fmt.Sprint(from), "-to", fmt.Sprint(to),
			"-shrink", "0", "-tree", r.tree, "-flavour", r.build, "-simd", r.simd}
		if r.wantDig {
			args = append(args, "-digests")
		}
		os.Chtimes(filepath.Dir(r.bin), time.Now(), time.Now())
		cmd := exec.Command(r.bin, args...)
		cmd.Env = workerEnv()
		var stderr bytes.Buffer
		cmd.Stderr = &stderr
		stdout, _ := cmd.StdoutPipe()
		if err := cmd.Start(); err != nil {
			fatal2("cannot start worker: %v", err)
		}
		var began, ended int64 = -1, -1
		gotSummary := false
		sc := bufio.NewScanner(stdout)
		sc.Buffer(make([]byte, 1<<20), 64<<20)
		timer := time.AfterFunc(10*time.Minute+time.Until(r.deadline), func() { cmd.Process.Kill() })
		// hang watchdog: a world normally takes milliseconds (an exhaustive sweep < 1 s). A worker that
		// prints nothing for hangSecs is killed; the run it was in is reported as a crash-class
		// violation "hang" (and must reproduce out of process like every crash class).
		var lastProgress int64 = time.Now().UnixNano()
		hung := int32(0)
		stopWatch := make(chan struct{})
		go func() {
			tk := time.NewTicker(2 * time.Second)
			defer tk.Stop()
			for {
				select {
				case <-stopWatch:
					return
				case <-tk.C:
					if time.Since(time.Unix(0, atomic.LoadInt64(&lastProgress))) > hangSecs*time.Second {
						atomic.StoreInt32(&hung, 1)
						cmd.Process.Kill()
						return
					}
				}
			}
		}()
		for sc.Scan() {
			line := sc.Text()
			atomic.StoreInt64(&lastProgress, time.Now().UnixNano())
			switch {
			case strings.HasPrefix(line, "B "):
				v, _ := strconv.ParseInt(line[2:], 10, 64)
				began = v
			case strings.HasPrefix(line, "E "):
				m := reEnd.FindStringSubmatch(line)
				if m == nil {
					continue
				}
				v, _ := strconv.ParseInt(m[1], 10, 64)
				ended = v
				if r.wantDig && m[2] != "" {
					r.mu.Lock()
					r.digests[uint64(v)] = m[2] + ":" + m[3]
					r.mu.Unlock()
				}
				if m[5] != "" {
					var vv struct {
						Class  string            `json:"class"`
						Detail string            `json:"detail"`
						Facts  map[string]string `json:"facts"`
					}
					json.Unmarshal([]byte(m[5]), &vv)
					r.mu.Lock()
					r.viols = append(r.viols, &violation{Index: uint64(v), Class: vv.Class, Detail: vv.Detail, Facts: vv.Facts, Replay: m[4], Build: r.build, Simd: r.simd})
					r.mu.Unlock()
				}
			case strings.HasPrefix(line, "C "):
				var ci uint64
				var cv string
				if n, _ := fmt.Sscanf(line, "C %d %s", &ci, &cv); n == 2 {
					r.mu.Lock()
					if r.cmps == nil {
						r.cmps = map[uint64]string{}
					}
					r.cmps[ci] = cv
					r.mu.Unlock()
				}
			case strings.HasPrefix(line, "S "):
				var s workerSummary
				if json.Unmarshal([]byte(line[2:]), &s) == nil {
					r.merge(&s)
					gotSummary = true
				}
			}
		}
		err := cmd.Wait()
		timer.Stop()
		close(stopWatch)
		if atomic.LoadInt32(&hung) == 1 {
			stderr.WriteString("\nfatal error: hang: no journal progress for " + fmt.Sprint(int(hangSecs)) + " s (killed by the driver's watchdog)\n")
			// every further hang costs hangSecs of wall clock: after the third one the sweep stops (what was
			// found is reported; the evidence file says that the run was truncated)
			if atomic.AddInt32(&r.hangs, 1) >= 3 {
				r.mu.Lock()
				r.deadline = time.Now()
				r.mu.Unlock()
			}
		}
		if err == nil && gotSummary {
			return
		}
		// abnormal exit
		if began >= 0 && began != ended {
			// died inside a run: crash-class violation at index `began`
			r.mu.Lock()
			r.viols = append(r.viols, &violation{Index: uint64(began), Class: r.cfg.ID + "/crash@" + crashSite(stderr.String()), Detail: tail(stderr.String(), 4000), Crash: true, Build: r.build, Simd: r.simd, Stderr: tail(stderr.String(), 6000)})
			r.sum.Worlds += uint64(began) - from + 1
			r.mu.Unlock()
			from = uint64(began) + 1
			continue
		}
		fatal2("worker exited abnormally outside a run (%v): %s", err, tail(stderr.String(), 3000))
	}
}

func (r *runner) merge(s *workerSummary) {
	r.mu.Lock()
	defer r.mu.Unlock()
	r.sum.Worlds += s.Worlds
	r.sum.Steps += s.Steps
	r.sum.Violations += s.Violations
	r.sum.Wall += s.Wall
	if r.sum.Stats == nil {
		r.sum.Stats = map[string]uint64{}
		r.sum.Sigs = map[string]uint64{}
	}
	for k, v := range s.Stats {
		r.sum.Stats[k] += v
	}
	for k, v := range s.Sigs {
		r.sum.Sigs[k] += v
	}
	if len(r.sum.Samples) < 4 {
		r.sum.Samples = append(r.sum.Samples, s.Samples...)
	}
	if len(s.Pools) > len(r.sum.Pools) {
		r.sum.Pools = s.Pools
	}
	r.sum.Reached = orHex(r.sum.Reached, s.Reached)
}

func tail(s string, n int) string {
	if len(s) > n {
		return "..." + s[len(s)-n:]
	}
	return s
}

var reGoroutineFrame = regexp.MustCompile(`(?m)^(github\.com/cloudwego/dynamicgo/[^\s(]+(?:\([^)]*\))?[^\s(]*)\(`)

// crashSite normalises a dying worker's stderr to "<signal-or-fatal>:<innermost library frame>".
func crashSite(stderr string) string {
	kind := "unknown"
	switch {
	case strings.Contains(stderr, "WARNING: DATA RACE"):
		kind = "datarace"
	case strings.Contains(stderr, "SIGSEGV"):
		kind = "SIGSEGV"
	case strings.Contains(stderr, "SIGBUS"):
		kind = "SIGBUS"
	case strings.Contains(stderr, "fatal error:"):
		i := strings.Index(stderr, "fatal error:")
		l := stderr[i+13:]
		if j := strings.IndexByte(l, '\n'); j >= 0 {
			l = l[:j]
		}
		kind = "fatal:" + strings.ReplaceAll(strings.TrimSpace(l), " ", "_")
	case strings.Contains(stderr, "panic:"):
		kind = "panic"
	case strings.Contains(stderr, "signal: killed"):
		kind = "killed"
	}
	site := "?"
	for _, m := range reGoroutineFrame.FindAllStringSubmatch(stderr, -1) {
		f := m[1]
		if strings.Contains(f, "/internal/verifsim") || strings.Contains(f, "/internal/simrt") {
			continue
		}
		site = strings.TrimPrefix(f, "github.com/cloudwego/dynamicgo/")
		break
	}
	return kind + ":" + site
}

func (r *runner) run(total uint64, workers int) {
	chunk := total / uint64(workers*6)
	if chunk < 50 {
		chunk = 50
	}
	if chunk > 20000 {
		chunk = 20000
	}
	type job struct{ a, b uint64 }
	jobs := make(chan job, 1024)
	var wg sync.WaitGroup
	for i := 0; i < workers; i++ {
		wg.Add(1)
		go func() {
			defer wg.Done()
			for j := range jobs {
				r.runChunk(j.a, j.b)
			}
		}()
	}
	for a := uint64(0); a < total; a += chunk {
		b := a + chunk
		if b > total {
			b = total
		}
		jobs <- job{a, b}
	}
	close(jobs)
	wg.Wait()
}

// ---- crash-class handling: recover the tape of a dying run and shrink it out of process.

func (r *runner) runTape(tape []uint64) (class string, detail string) {
	f, _ := os.CreateTemp(filepath.Join(verifDir, ".build"), "tape-*.json")
	b, _ := json.Marshal(tape)
	f.Write(b)
	f.Close()
	defer os.Remove(f.Name())
	cmd := exec.Command(r.bin, "-prop", r.cfg.ID, "-tier", r.tier, "-tape", f.Name(), "-simd", r.simd)
	cmd.Env = workerEnv()
	var stderr, stdout bytes.Buffer
	cmd.Stderr = &stderr
	cmd.Stdout = &stdout
	done := make(chan error, 1)
	cmd.Start()
	go func() { done <- cmd.Wait() }()
	select {
	case err := <-done:
		for _, line := range strings.Split(stdout.String(), "\n") {
			if m := reEnd.FindStringSubmatch(line); m != nil {
				if m[5] != "" {
					var vv struct{ Class, Detail string }
					json.Unmarshal([]byte(m[5]), &vv)
					return vv.Class, vv.Detail
				}
				return "", ""
			}
		}
		if err != nil {
			return r.cfg.ID + "/crash@" + crashSite(stderr.String()), tail(stderr.String(), 4000)
		}
		return "", ""
	case <-time.After(60 * time.Second):
		cmd.Process.Kill()
		return r.cfg.ID + "/hang", "worker did not finish within 60 s"
	}
}

// runSeedOnce runs one world from its seed in a fresh process and returns its violation class ("" if none).
func (r *runner) runSeedOnce(idx uint64) string {
	cmd := exec.Command(r.bin, "-prop", r.cfg.ID, "-tier", r.tier, "-seed", fmt.Sprint(r.seed), "-from", fmt.Sprint(idx), "-to", fmt.Sprint(idx+1), "-simd", r.simd, "-shrink", "0")
	cmd.Env = workerEnv()
	var stderr, stdout bytes.Buffer
	cmd.Stderr = &stderr
	cmd.Stdout = &stdout
	done := make(chan error, 1)
	cmd.Start()
	go func() { done <- cmd.Wait() }()
	select {
	case err := <-done:
		for _, line := range strings.Split(stdout.String(), "\n") {
			if m := reEnd.FindStringSubmatch(line); m != nil {
				if m[5] != "" {
					var vv struct{ Class string }
					json.Unmarshal([]byte(m[5]), &vv)
					return vv.Class
				}
				return ""
			}
		}
		if err != nil {
			return r.cfg.ID + "/crash@" + crashSite(stderr.String())
		}
		return ""
	case <-time.After(90 * time.Second):
		cmd.Process.Kill()
		return r.cfg.ID + "/hang"
	}
}

func (r *runner) crashReplay(v *violation, budget int) {
	tf := filepath.Join(verifDir, ".build", fmt.Sprintf("crash-%s-%d.tape", r.cfg.ID, v.Index))
	cmd := exec.Command(r.bin, "-prop", r.cfg.ID, "-tier", r.tier, "-seed", fmt.Sprint(r.seed), "-from", fmt.Sprint(v.Index), "-to", fmt.Sprint(v.Index+1), "-tapeout", tf, "-simd", r.simd, "-shrink", "0")
	cmd.Env = workerEnv()
	cmd.Run()
	defer os.Remove(tf)
	b, err := os.ReadFile(tf)
	if err != nil {
		v.Confirm = "could not recover tape"
		return
	}
	var tape []uint64
	for _, l := range strings.Fields(string(b)) {
		x, _ := strconv.ParseUint(l, 10, 64)
		tape = append(tape, x)
	}
	cls, _ := r.runTape(tape)
	if strings.Contains(cls, "/hang") && strings.Contains(v.Class, "hang") {
		cls = v.Class // a hang found by the sweep's watchdog and a hang of the single-world replay are the same class
	}
	if cls != v.Class {
		// the recovered tape ends where the process died; if replaying it does not die the same way
		// (ThreadSanitizer reports depend on its bounded access history), fall back to replaying the
		// world from its seed in a fresh process, which is deterministic as well
		if c2 := r.runSeedOnce(v.Index); c2 == v.Class {
			rf := map[string]interface{}{"property": r.cfg.ID, "tier": r.tier, "flavour": r.build, "simd": r.simd, "verif_seed": r.seed, "world_index": v.Index, "tree_hash": r.tree,
				"by_seed": true, "tape": tape, "violation": map[string]interface{}{"class": v.Class, "detail": v.Detail},
				"decoded": []string{"(crash class replayed from its seed: the tape recovered up to the crash is attached for reference)"}}
			name := filepath.Join(verifDir, "replays", fmt.Sprintf("%s-%d-%d-crash.json", r.cfg.ID, r.seed, v.Index))
			jb, _ := json.MarshalIndent(rf, "", " ")
			os.MkdirAll(filepath.Dir(name), 0o755)
			os.WriteFile(name, jb, 0o644)
			v.Replay = name
			v.Confirm = "by_seed"
			return
		}
		v.Confirm = fmt.Sprintf("crash did not reproduce from recovered tape (got %q)", cls)
		return
	}
	if strings.Contains(v.Class, "hang") {
		budget = 0 // every candidate of a hanging run costs hangSecs: keep the recovered tape as it is
	}
	best, tried := simrt.Shrink(tape, budget, func(c []uint64) bool {
		cl, _ := r.runTape(c)
		return cl == v.Class
	})
	rf := map[string]interface{}{"property": r.cfg.ID, "tier": r.tier, "flavour": r.build, "simd": r.simd, "verif_seed": r.seed, "world_index": v.Index, "tree_hash": r.tree,
		"tape": best, "violation": map[string]interface{}{"class": v.Class, "detail": v.Detail}, "decoded": []string{"(crash class: decoded log unavailable because the process dies; replay prints the log up to the crash)"},
		"shrunk": fmt.Sprintf("tape %d -> %d values, %d out-of-process candidates", len(tape), len(best), tried)}
	name := filepath.Join(verifDir, "replays", fmt.Sprintf("%s-%d-%d-crash.json", r.cfg.ID, r.seed, v.Index))
	jb, _ := json.MarshalIndent(rf, "", " ")
	os.MkdirAll(filepath.Dir(name), 0o755)
	os.WriteFile(name, jb, 0o644)
	v.Replay = name
}

func factsKey(f map[string]string) string {
	var ks []string
	for k := range f {
		if k == "env" {
			continue
		}
		ks = append(ks, k+"="+f[k])
	}
	sort.Strings(ks)
	return strings.Join(ks, ",")
}

// shrinkInWorker re-runs one world in a fresh worker which shrinks the tape in process and writes the replay file.
func (r *runner) shrinkInWorker(v *violation) {
	budget := "600"
	if r.tier == "thorough" {
		budget = "3000"
	}
	cmd := exec.Command(r.bin, "-prop", r.cfg.ID, "-tier", r.tier, "-seed", fmt.Sprint(r.seed), "-from", fmt.Sprint(v.Index), "-to", fmt.Sprint(v.Index+1),
		"-replaydir", filepath.Join(verifDir, "replays"), "-tree", r.tree, "-flavour", r.build, "-simd", r.simd, "-shrink", budget)
	cmd.Env = workerEnv()
	outb, _ := cmd.Output()
	for _, line := range strings.Split(string(outb), "\n") {
		if m := reEnd.FindStringSubmatch(line); m != nil && m[4] != "" && m[4] != "-" {
			v.Replay = m[4]
		}
	}
}

// confirm replays a replay file in a fresh process and checks the class.
func (r *runner) confirm(v *violation) bool {
	if v.Replay == "" {
		return false
	}
	b, err := os.ReadFile(v.Replay)
	if err != nil {
		return false
	}
	var rf struct {
		Tape   []uint64 `json:"tape"`
		BySeed bool     `json:"by_seed"`
		Index  uint64   `json:"world_index"`
	}
	json.Unmarshal(b, &rf)
	if rf.BySeed {
		if c := r.runSeedOnce(rf.Index); c == v.Class || (strings.Contains(c, "/hang") && strings.Contains(v.Class, "hang")) {
			return true
		}
		v.Confirm = "seed replay in a fresh process did not reproduce"
		return false
	}
	cls, _ := r.runTape(rf.Tape)
	if cls == v.Class || (strings.Contains(cls, "/hang") && strings.Contains(v.Class, "hang")) {
		return true
	}
	v.Confirm = fmt.Sprintf("replay in a fresh process gave class %q", cls)
	return false
}

// oneCmp runs a single world and returns its comparison digest.
func (r *runner) oneCmp(idx uint64, trace bool) (string, string) {
	args := []string{"-prop", r.cfg.ID, "-tier", r.tier, "-seed", fmt.Sprint(r.seed), "-from", fmt.Sprint(idx), "-to", fmt.Sprint(idx + 1), "-shrink", "0", "-simd", r.simd}
	cmd := exec.Command(r.bin, args...)
	cmd.Env = workerEnv()
	if trace {
		cmd.Args = append(cmd.Args, "-trace")
	}
	outb, _ := cmd.Output()
	c := ""
	for _, line := range strings.Split(string(outb), "\n") {
		if strings.HasPrefix(line, "C ") {
			f := strings.Fields(line)
			if len(f) == 3 {
				c = f[2]
			}
		}
	}
	return c, string(outb)
}

func confirmDifferential(runners []*runner, v *violation) bool {
	if len(runners) < 2 {
		return false
	}
	a, _ := runners[0].oneCmp(v.Index, false)
	for _, o := range runners[1:] {
		b, _ := o.oneCmp(v.Index, false)
		if a != "" && b != "" && a != b {
			return true
		}
	}
	return false
}

// ---- known findings

type knownFinding struct {
	ID          string            `json:"id"`
	Property    string            `json:"property"`
	Status      string            `json:"status"` // "open" or "fixed:<commit>"
	ClassPrefix string            `json:"class_prefix"`
	Facts       map[string]string `json:"facts,omitempty"`
	DetailRe    string            `json:"detail_regex,omitempty"`
	What        string            `json:"what"`
}

func loadKnown() []knownFinding {
	b, err := os.ReadFile(filepath.Join(verifDir, "known-findings.json"))
	if err != nil {
		return nil
	}
	var k struct {
		Findings []knownFinding `json:"findings"`
	}
	if err := json.Unmarshal(b, &k); err != nil {
		fatal2("known-findings.json: %v", err)
	}
	return k.Findings
}

func matchKnown(v *violation, ks []knownFinding) *knownFinding {
	for i := range ks {
		k := &ks[i]
		if k.Status != "open" || k.Property != strings.SplitN(v.Class, "/", 2)[0] {
			continue
		}
		if !strings.HasPrefix(v.Class, k.ClassPrefix) {
			continue
		}
		ok := true
		for fk, fv := range k.Facts {
			// a fact value is an anchored regular expression
			if m, err := regexp.MatchString("^(?:"+fv+")$", v.Facts[fk]); err != nil || !m {
				ok = false
			}
		}
		if ok && k.DetailRe != "" {
			if m, _ := regexp.MatchString(k.DetailRe, v.Detail); !m {
				ok = false
			}
		}
		if ok {
			return k
		}
	}
	return nil
}

// ---- check

func envSeed() uint64 {
	if s := os.Getenv("VERIF_SEED"); s != "" {
		if v, err := strconv.ParseUint(s, 10, 64); err == nil {
			return v
		}
		if v, err := strconv.ParseInt(s, 10, 64); err == nil {
			return uint64(v)
		}
	}
	return 1
}

func cmdCheck(args []string) int {
	fs := flag.NewFlagSet("check", flag.ExitOnError)
	prop := fs.String("prop", "", "property id")
	tier := fs.String("tier", "", "quick|thorough")
	worlds := fs.Int("worlds", 0, "override world budget")
	workers := fs.Int("workers", runtime.NumCPU(), "worker processes")
	maxWall := fs.Duration("maxwall", 0, "wall-clock cap (truncates; never a verdict)")
	noEvidence := fs.Bool("no-evidence", false, "do not write the evidence file")
	fs.Parse(args)
	if *tier == "" {
		*tier = os.Getenv("VERIF_TIER")
	}
	if *tier == "" {
		*tier = "quick"
	}
	cfg := cfgs[*prop]
	if cfg == nil {
		fatal2("unknown property %q", *prop)
	}
	seed := envSeed()
	total := cfg.Quick
	wall := 8 * time.Minute
	if *tier == "thorough" {
		total = cfg.Thorough
		wall = 100 * time.Minute
	}
	if *worlds > 0 {
		total = *worlds
	}
	if *maxWall > 0 {
		wall = *maxWall
	}
	start := time.Now()
	known := loadKnown()
	var all []*violation
	var sums []workerSummary
	var ovst *overlayStats
	tree := ""
	truncated := false
	builds := cfg.Builds
	if e := os.Getenv("VERIF_BUILDS"); e != "" { // experiments only: not used by any registered command
		builds = strings.Split(e, ",")
	}
	var specs []runSpec
	for _, b := range builds {
		if len(cfg.Simd) == 0 || b != "native" {
			specs = append(specs, runSpec{b, "tape"})
		} else {
			for _, s := range cfg.Simd {
				specs = append(specs, runSpec{b, s})
			}
		}
	}
	var runners []*runner
	{
		unlock := lockRepo() // all flavours of one check are built from the same tree
		for _, sp := range specs {
			buildSim(sp.build)
		}
		unlock()
	}
	for _, sp := range specs {
		bin, th, st := buildSim(sp.build)
		tree, ovst = th, st
		r := &runner{cfg: cfg, tier: *tier, seed: seed, bin: bin, build: sp.build, simd: sp.simd, tree: th, deadline: start.Add(wall), digests: map[uint64]string{}}
		n := uint64(total)
		if sp.build == "race" && cfg.RaceDiv > 1 {
			n = uint64(total / cfg.RaceDiv)
		}
		r.run(n, *workers)
		// one replay file per distinct (class, known-finding) : crash classes are shrunk out of
		// process, the others by the worker itself
		sort.Slice(r.viols, func(i, j int) bool { return r.viols[i].Index < r.viols[j].Index })
		doneKey := map[string]bool{}
		hangDone := false
		for _, v := range r.viols {
			key := v.Class
			if k := matchKnown(v, known); k != nil {
				key = "known|" + k.ID
			} else {
				key += "|" + factsKey(v.Facts)
			}
			if doneKey[key] || len(doneKey) >= 32 {
				continue
			}
			if v.Crash && strings.Contains(v.Class, "hang") {
				// replaying a hang costs the watchdog's patience every time: one replay file per run is enough
				if hangDone {
					continue
				}
				hangDone = true
			}
			doneKey[key] = true
			if v.Crash {
				b := 120
				if *tier == "thorough" {
					b = 600
				}
				r.crashReplay(v, b)
			} else {
				r.shrinkInWorker(v)
			}
		}
		all = append(all, r.viols...)
		sums = append(sums, r.sum)
		truncated = truncated || r.trunc
		runners = append(runners, r)
	}

	// differential: comparison digests of all builds must agree world by world
	if cfg.Differential && len(runners) > 1 {
		base := runners[0]
		var idxs []uint64
		for i := range base.cmps {
			idxs = append(idxs, i)
		}
		sort.Slice(idxs, func(a, b int) bool { return idxs[a] < idxs[b] })
		ndiff := 0
		for _, other := range runners[1:] {
			for _, i := range idxs {
				oc, ok := other.cmps[i]
				if !ok || oc == base.cmps[i] {
					continue
				}
				ndiff++
				if ndiff > 3 {
					continue
				}
				name := filepath.Join(verifDir, "replays", fmt.Sprintf("%s-%d-%d-diff.json", cfg.ID, seed, i))
				rf := map[string]interface{}{"property": cfg.ID, "tier": *tier, "verif_seed": seed, "world_index": i, "tree_hash": tree, "differential": []string{base.build, other.build},
					"violation": map[string]interface{}{"class": cfg.ID + "/builds-disagree", "detail": fmt.Sprintf("world %d: comparison digest %s under build %s, %s under build %s", i, base.cmps[i], base.build, oc, other.build)}}
				jb, _ := json.MarshalIndent(rf, "", " ")
				os.MkdirAll(filepath.Dir(name), 0o755)
				os.WriteFile(name, jb, 0o644)
				all = append(all, &violation{Index: i, Class: cfg.ID + "/builds-disagree", Detail: rf["violation"].(map[string]interface{})["detail"].(string), Replay: name, Build: "differential", Simd: base.simd, Confirm: "differential"})
			}
		}
	}

	// classify
	exit := 0
	knownPrinted := map[string]bool{}
	classSeen := map[string]int{}
	var reported []*violation
	sort.Slice(all, func(i, j int) bool { return all[i].Index < all[j].Index })
	for _, v := range all {
		classSeen[v.Class]++
		if k := matchKnown(v, known); k != nil {
			v.Known = k.ID
			if !knownPrinted[k.ID] {
				knownPrinted[k.ID] = true
				fmt.Printf("KNOWN-FINDING: property=%s %s [%s] (e.g. world %d, replay %s)\n", cfg.ID, k.What, k.ID, v.Index, v.Replay)
			}
			continue
		}
		if classSeen[v.Class] > 1 && v.Replay == "" {
			continue // same class already reported with a replay file
		}
		reported = append(reported, v)
	}
	nonReplayable := 0
	printed := map[string]bool{}
	for _, v := range reported {
		if printed[v.Class] {
			continue
		}
		var rr *runner
		for _, r := range runners {
			if r.build == v.Build && r.simd == v.Simd {
				rr = r
			}
		}
		if v.Build == "differential" {
			if !confirmDifferential(runners, v) {
				nonReplayable++
				fmt.Fprintf(os.Stderr, "dynsim: NON-REPLAYABLE differential failure world=%d\n", v.Index)
				continue
			}
			printed[v.Class] = true
			fmt.Printf("VIOLATION property=%s replay=%s\n  %s\n", cfg.ID, v.Replay, v.Detail)
			exit = 1
			continue
		}
		if (v.Replay == "" || !rr.confirm(v)) && rr.runSeedOnce(v.Index) == v.Class {
			// the shrunk tape does not fail the same way in a fresh process (shrinking runs hundreds of
			// candidate worlds in one process; state a dependency keeps outside the simulator's pools, or an
			// allocation total a few bytes from its budget, can make a candidate look failing): report the
			// unshrunk world, replayed from its seed in a fresh process
			rf := map[string]interface{}{"property": cfg.ID, "tier": *tier, "flavour": rr.build, "simd": rr.simd, "verif_seed": rr.seed, "world_index": v.Index, "tree_hash": rr.tree,
				"by_seed": true, "violation": map[string]interface{}{"class": v.Class, "detail": v.Detail, "facts": v.Facts},
				"decoded": []string{"(not minimised: the shrunk tape did not reproduce in a fresh process; the world is replayed from its seed)"}}
			name := filepath.Join(verifDir, "replays", fmt.Sprintf("%s-%d-%d-seed.json", cfg.ID, rr.seed, v.Index))
			jb, _ := json.MarshalIndent(rf, "", " ")
			os.MkdirAll(filepath.Dir(name), 0o755)
			os.WriteFile(name, jb, 0o644)
			v.Replay, v.Confirm = name, "by_seed"
		}
		if v.Replay == "" || !rr.confirm(v) {
			nonReplayable++
			fmt.Fprintf(os.Stderr, "dynsim: NON-REPLAYABLE failure class=%s world=%d: %s\n%s\n", v.Class, v.Index, v.Confirm, tail(v.Detail, 1500))
			continue
		}
		printed[v.Class] = true
		fmt.Printf("VIOLATION property=%s replay=%s\n", cfg.ID, v.Replay)
		fmt.Printf("  class=%s world=%d build=%s simd=%s\n  %s\n", v.Class, v.Index, v.Build, v.Simd, strings.ReplaceAll(tail(v.Detail, 1200), "\n", "\n  "))
		exit = 1
	}
	if exit == 0 && nonReplayable > 0 {
		exit = 2
	}

	// evidence
	wallS := time.Since(start).Seconds()
	if !*noEvidence {
		writeEvidence(cfg, *tier, seed, sums, all, known, knownPrinted, ovst, tree, wallS, truncated, specs2str(specs), len(printed))
	}
	var worldsRun uint64
	for _, s := range sums {
		worldsRun += s.Worlds
	}
	fmt.Printf("dynsim: property=%s tier=%s seed=%d worlds=%d violations=%d known=%d wall=%.1fs tree=%s%s\n", cfg.ID, *tier, seed, worldsRun, len(printed), len(knownPrinted), wallS, tree, map[bool]string{true: " (TRUNCATED by wall-clock cap)", false: ""}[truncated])
	return exit
}

type runSpec struct{ build, simd string }

func specs2str(s []runSpec) []string {
	var o []string
	for _, x := range s {
		o = append(o, x.build+"/"+x.simd)
	}
	return o
}

func writeEvidence(cfg *propCfg, tier string, seed uint64, sums []workerSummary, viols []*violation, known []knownFinding, knownPrinted map[string]bool, ovst *overlayStats, tree string, wallS float64, truncated bool, specs []string, nviol int) {
	var worlds, steps uint64
	stats := map[string]uint64{}
	sigs := map[string]uint64{}
	var samples []interface{}
	var pools []string
	reached := ""
	for _, s := range sums {
		worlds += s.Worlds
		steps += s.Steps
		for k, v := range s.Stats {
			stats[k] += v
		}
		for k, v := range s.Sigs {
			sigs[k] += v
		}
		for _, x := range s.Samples {
			if len(samples) < 4 {
				samples = append(samples, x)
			}
		}
		if len(s.Pools) > len(pools) {
			pools = s.Pools
		}
		reached = orHex(reached, s.Reached)
	}
	if len(samples) == 0 {
		samples = append(samples, "no sample recorded")
	}
	faults := map[string]uint64{}
	probes := map[string]uint64{}
	var unreached []string
	for k, v := range stats {
		if strings.HasPrefix(k, "site:") {
			probes[k[5:]] = v
		} else {
			faults[k] = v
		}
	}
	for _, p := range expectedProbes[cfg.ID] {
		if stats[p] == 0 && probes[strings.TrimPrefix(p, "site:")] == 0 {
			unreached = append(unreached, p)
		}
	}
	sort.Strings(unreached)
	var kf []string
	for id := range knownPrinted {
		kf = append(kf, id)
	}
	sort.Strings(kf)
	reach := functionReach(cfg.ID, tree, reached)
	cov := map[string]interface{}{
		"function_reach":             reach,
		"evaluations":                worlds,
		"distinct_nontrivial":        len(sigs),
		"rule":                       cfg.Rule,
		"samples":                    samples,
		"logical_steps_yields":       steps,
		"simulated_time":             "not applicable: the library reads no clock and has no timers; logical steps (yields) and operations are reported instead",
		"runs_per_hour":              int(float64(worlds) / wallS * 3600),
		"faults_fired":               faults,
		"rare_branch_probes":         probes,
		"unreached_probes":           unreached,
		"components_real":            cfg.Real,
		"components_stub":            cfg.Stub,
		"builds":                     specs,
		"tree_hash":                  tree,
		"overlay":                    ovst,
		"pools_seen":                 pools,
		"known_findings_printed":     kf,
		"truncated_by_wallclock_cap": truncated,
	}
	ev := map[string]interface{}{
		"property_id": cfg.ID, "tier": tier, "seed": seed, "level": cfg.Level, "coverage": cov,
		"assumptions": []string{"a clean batch is evidence, not proof: the environment space is sampled, not enumerated", "interleavings finer than Go function entries and pool operations are not explored; assembly runs atomically", "reference encoders/decoders of the harness are trusted"},
		"wall_s":      wallS, "violations": nviol,
	}
	b, _ := json.MarshalIndent(ev, "", " ")
	os.MkdirAll(filepath.Join(verifDir, "evidence"), 0o755)
	if err := os.WriteFile(filepath.Join(verifDir, "evidence", cfg.ID+".json"), b, 0o644); err != nil {
		fatal2("write evidence: %v", err)
	}
}

// expectedProbes lists counters that a healthy run of the check should reach.
var expectedProbes = map[string][]string{}

func cmdReplay(args []string) int {
	if len(args) < 1 {
		fatal2("usage: dynsim replay <file>")
	}
	b, err := os.ReadFile(args[0])
	if err != nil {
		fatal2("%v", err)
	}
	var rf struct {
		Property     string   `json:"property"`
		Flavour      string   `json:"flavour"`
		Simd         string   `json:"simd"`
		Differential []string `json:"differential"`
		Seed         uint64   `json:"verif_seed"`
		Index        uint64   `json:"world_index"`
		Tier         string   `json:"tier"`
	}
	if err := json.Unmarshal(b, &rf); err != nil {
		fatal2("%v", err)
	}
	if len(rf.Differential) > 0 {
		cfg := cfgs[rf.Property]
		if cfg == nil {
			fatal2("unknown property %q", rf.Property)
		}
		var cmps []string
		for _, build := range rf.Differential {
			bin, th, _ := buildSim(build)
			r := &runner{cfg: cfg, tier: rf.Tier, seed: rf.Seed, bin: bin, build: build, simd: "tape", tree: th}
			c, out := r.oneCmp(rf.Index, true)
			fmt.Printf("---- build %s: comparison digest %s\n%s", build, c, out)
			cmps = append(cmps, c)
		}
		for _, c := range cmps[1:] {
			if c != cmps[0] {
				fmt.Printf("VIOLATION property=%s replay=%s\n", rf.Property, args[0])
				return 1
			}
		}
		fmt.Println("replay: builds agree, no violation")
		return 0
	}
	if rf.Flavour == "" {
		rf.Flavour = "native"
	}
	var bs struct {
		BySeed bool `json:"by_seed"`
	}
	json.Unmarshal(b, &bs)
	if bs.BySeed {
		bin, th, _ := buildSim(rf.Flavour)
		if rf.Simd == "" {
			rf.Simd = "tape"
		}
		r := &runner{cfg: cfgs[rf.Property], tier: rf.Tier, seed: rf.Seed, bin: bin, build: rf.Flavour, simd: rf.Simd, tree: th}
		c := r.runSeedOnce(rf.Index)
		if c != "" {
			fmt.Printf("replayed from seed: class %s\nVIOLATION property=%s replay=%s\n", c, rf.Property, args[0])
			return 1
		}
		fmt.Println("replay: no violation")
		return 0
	}
	if rf.Simd == "" {
		rf.Simd = "tape"
	}
	bin, _, _ := buildSim(rf.Flavour)
	cmd := exec.Command(bin, "-replay", args[0], "-simd", rf.Simd)
	cmd.Env = workerEnv()
	cmd.Stdout = os.Stdout
	cmd.Stderr = os.Stderr
	err = cmd.Run()
	if err == nil {
		fmt.Println("replay: no violation")
		return 0
	}
	if ee, ok := err.(*exec.ExitError); ok && ee.ExitCode() == 1 {
		fmt.Printf("VIOLATION property=%s replay=%s\n", rf.Property, args[0])
		return 1
	}
	fmt.Printf("VIOLATION property=%s replay=%s (worker died: %v)\n", rf.Property, args[0], err)
	return 1
}

func cmdWarm() int {
	for _, f := range []string{"native"} {
		bin, th, st := buildSim(f)
		fmt.Printf("built %s (tree %s): %d files rewritten, %d yield sites, %d probes, %d pools\n", bin, th, st.Files, st.YieldSites, st.ProbeSites, len(st.Pools))
	}
	return 0
}

func main() {
	if d := os.Getenv("VERIF_DIR"); d != "" {
		verifDir = d
	} else if wd, err := os.Getwd(); err == nil {
		if _, err := os.Stat(filepath.Join(wd, "sim", "simrt")); err == nil {
			verifDir = wd
		}
	}
	if d := os.Getenv("VERIF_REPO"); d != "" {
		repoDir = d
	}
	if len(os.Args) < 2 {
		fatal2("usage: dynsim check|replay|warm|selftest ...")
	}
	switch os.Args[1] {
	case "check":
		os.Exit(cmdCheck(os.Args[2:]))
	case "replay":
		os.Exit(cmdReplay(os.Args[2:]))
	case "warm":
		os.Exit(cmdWarm())
	case "selftest":
		os.Exit(cmdSelftest(os.Args[2:]))
	default:
		fatal2("unknown command %q", os.Args[1])
	}
}

// functionReach reports how many instrumented functions (yield sites) the run passed at least once, overall
// and within the anchor files of the property (properties.jsonl), and names the anchor functions never reached.
func functionReach(prop, tree, reachedHex string) map[string]interface{} {
	out := map[string]interface{}{"measure": "instrumented functions (one yield site at every function entry of the library, generated code excluded) entered at least once by any world of this run"}
	b, err := os.ReadFile(filepath.Join(verifDir, ".build", tree, "ov-native", "sites.json"))
	if err != nil {
		out["note"] = "site table not available"
		return out
	}
	var st struct {
		Names []string `json:"names"`
		Files []string `json:"files"`
	}
	json.Unmarshal(b, &st)
	bits, _ := hex.DecodeString(reachedHex)
	hit := func(i int) bool { return i/8 < len(bits) && bits[i/8]&(1<<uint(i%8)) != 0 }
	anchors := map[string]bool{}
	if pb, err := os.ReadFile(filepath.Join(verifDir, "properties.jsonl")); err == nil {
		for _, line := range strings.Split(string(pb), "\n") {
			var p struct {
				ID      string `json:"id"`
				Anchors struct {
					Files []string `json:"files"`
				} `json:"anchors"`
			}
			if json.Unmarshal([]byte(line), &p) == nil && p.ID == prop {
				for _, f := range p.Anchors.Files {
					anchors[f] = true
				}
			}
		}
	}
	total, got, atotal, agot := 0, 0, 0, 0
	var missing []string
	// files whose build constraint excludes them from the native amd64 build are not part of the measure
	inactive := map[string]bool{}
	isInactive := func(f string) bool {
		if v, ok := inactive[f]; ok {
			return v
		}
		v := false
		if b, err := os.ReadFile(filepath.Join(repoDir, f)); err == nil {
			for _, line := range strings.SplitN(string(b), "\n", 40) {
				if strings.HasPrefix(line, "//go:build") && (strings.Contains(line, "!amd64") || strings.Contains(line, "arm64")) && !strings.Contains(line, "amd64 &&") {
					v = true
				}
			}
		}
		inactive[f] = v
		return v
	}
	for i, n := range st.Names {
		if strings.Contains(n, "#") {
			continue // error-code probes are reported separately
		}
		if i < len(st.Files) && isInactive(st.Files[i]) {
			continue
		}
		total++
		if hit(i) {
			got++
		}
		if i < len(st.Files) && anchors[st.Files[i]] {
			atotal++
			if hit(i) {
				agot++
			} else {
				missing = append(missing, n)
			}
		}
	}
	sort.Strings(missing)
	if len(missing) > 80 {
		missing = append(missing[:80], fmt.Sprintf("... and %d more", len(missing)-80))
	}
	out["instrumented_functions"] = total
	out["reached"] = got
	out["anchor_file_functions"] = atotal
	out["anchor_file_functions_reached"] = agot
	out["anchor_file_functions_never_entered"] = missing
	return out
}
