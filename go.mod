module verif

go 1.21
