#!/bin/bash
# usage: quickseeds.sh <seed...>  - quick tier of every check under other seeds (no evidence written); one line per run in logs/quickseeds.log
export GOFLAGS=-mod=mod GOPROXY=off GOSUMDB=off GOTOOLCHAIN=local
cd /verif; mkdir -p logs
for s in "$@"; do
  for p in C02 C03 C04 C05 C06 C08 C09 C10 C12 C16 C17 C18; do
    VERIF_SEED=$s bin/dynsim check --prop $p --tier quick --no-evidence > logs/quick.$p.$s.log 2>&1; rc=$?
    echo "$(date +%H:%M) $p seed=$s exit=$rc $(grep -a '^dynsim:' logs/quick.$p.$s.log | cut -c1-120)" >> logs/quickseeds.log
  done
done
