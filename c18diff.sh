#!/bin/bash
# usage: c18diff.sh <world index> [seed]  - shows per-doc outputs of the native and the portable build
N=$(ls -t /verif/.build/*/sim-native | head -1); P=$(ls -t /verif/.build/*/sim-portable | head -1)
for B in $N $P; do GOMAXPROCS=1 $B -prop C18 -seed ${2:-1} -from $1 -to $(($1+1)) -trace -shrink 0 2>/dev/null| grep -a "^L" | grep -av "env:" | grep -a "doc [0-9]\|->\|options" | cut -c1-${3:-600}; echo ----; done
