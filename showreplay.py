#!/usr/bin/env python3
import json,sys
for f in sys.argv[1:]:
    r=json.load(open(f))
    print('=====',f,r.get('shrunk'))
    print(r['violation']['class']); print(r['violation']['detail'][:1800]); print(r['violation'].get('facts'))
    print('\n'.join(x[:1500] for x in r['decoded']))
