package main

import (
	"bytes"
	"context"
	"encoding/base64"
	"encoding/json"
	"fmt"
	"io"
	"math"
	"math/big"
	"strconv"

	"github.com/jhump/protoreflect/dynamic"
	"google.golang.org/protobuf/encoding/protowire"

	"github.com/cloudwego/dynamicgo/conv"
	"github.com/cloudwego/dynamicgo/conv/p2j"
	"github.com/cloudwego/dynamicgo/internal/simrt"
	"github.com/cloudwego/dynamicgo/proto"
)

func init() { register("C08", runC08) }

// ---- strict JSON tree (object member order and duplicates are kept)

type jObj struct {
	Keys []string
	Vals []interface{}
}
type jArr []interface{}

func pParseJSONStrict(b []byte) (interface{}, error) {
	if !json.Valid(b) {
		// find the offset for the message
		dec := json.NewDecoder(bytes.NewReader(b))
		var x interface{}
		err := dec.Decode(&x)
		if err == nil {
			err = fmt.Errorf("trailing data after the top-level value")
		}
		return nil, err
	}
	dec := json.NewDecoder(bytes.NewReader(b))
	dec.UseNumber()
	v, err := jsonValue(dec)
	if err != nil {
		return nil, err
	}
	if _, err := dec.Token(); err != io.EOF {
		return nil, fmt.Errorf("trailing data after the top-level value")
	}
	return v, nil
}

func jsonValue(dec *json.Decoder) (interface{}, error) {
	tok, err := dec.Token()
	if err != nil {
		return nil, err
	}
	if d, ok := tok.(json.Delim); ok {
		switch d {
		case '{':
			o := &jObj{}
			for dec.More() {
				kt, err := dec.Token()
				if err != nil {
					return nil, err
				}
				k, ok := kt.(string)
				if !ok {
					return nil, fmt.Errorf("object key is not a string")
				}
				v, err := jsonValue(dec)
				if err != nil {
					return nil, err
				}
				o.Keys = append(o.Keys, k)
				o.Vals = append(o.Vals, v)
			}
			if _, err := dec.Token(); err != nil {
				return nil, err
			}
			return o, nil
		case '[':
			a := jArr{}
			for dec.More() {
				v, err := jsonValue(dec)
				if err != nil {
					return nil, err
				}
				a = append(a, v)
			}
			if _, err := dec.Token(); err != nil {
				return nil, err
			}
			return a, nil
		}
		return nil, fmt.Errorf("unexpected delimiter %v", d)
	}
	return tok, nil
}

// ---- oracle: JSON tree vs reference-decoded message

type c08Oracle struct {
	s         *PSchema
	int642str bool
	// cause is a short tag of the first difference (part of the violation class): the scalar kind
	// whose value differs, or a structural category.
	cause string
}

func (o *c08Oracle) tag(c string) {
	if o.cause == "" {
		o.cause = c
	}
}

func jsonIntEquals(n json.Number, signed int64, unsigned uint64, isUnsigned bool) bool {
	r, ok := new(big.Rat).SetString(string(n))
	if !ok {
		return false
	}
	var want *big.Rat
	if isUnsigned {
		want = new(big.Rat).SetInt(new(big.Int).SetUint64(unsigned))
	} else {
		want = new(big.Rat).SetInt64(signed)
	}
	return r.Cmp(want) == 0
}

func asInt(k pKind, gv interface{}) (int64, uint64) {
	switch x := gv.(type) {
	case int32:
		return int64(x), 0
	case int64:
		return x, 0
	case uint32:
		return 0, uint64(x)
	case uint64:
		return 0, x
	}
	panic(fmt.Sprintf("asInt: %T for %s", gv, k))
}

// scalar compares one JSON value with a reference-decoded scalar. "" = equal.
func (o *c08Oracle) scalar(f *PField, k pKind, gv interface{}, j interface{}, inKey bool) string {
	switch k {
	case pkBool:
		b, ok := j.(bool)
		if !ok || b != gv.(bool) {
			return fmt.Sprintf("bool %v rendered as %v", gv, jshow(j))
		}
	case pkString:
		s, ok := j.(string)
		if !ok || s != gv.(string) {
			return fmt.Sprintf("string %q rendered as %s", clip([]byte(gv.(string)), 80), jshow(j))
		}
	case pkBytes:
		s, ok := j.(string)
		if !ok || s != base64.StdEncoding.EncodeToString(gv.([]byte)) {
			return fmt.Sprintf("bytes %x rendered as %s", clipb(gv.([]byte), 40), jshow(j))
		}
	case pkDouble, pkFloat:
		var want float64
		if k == pkFloat {
			want = float64(gv.(float32))
		} else {
			want = gv.(float64)
		}
		if math.IsNaN(want) || math.IsInf(want, 0) {
			// the statement only demands "an error or valid JSON" here; any JSON string or null will do
			switch j.(type) {
			case string, nil:
				return ""
			}
			return fmt.Sprintf("non-finite %v rendered as %s", want, jshow(j))
		}
		n, ok := j.(json.Number)
		if !ok {
			return fmt.Sprintf("%s %v rendered as %s", k, want, jshow(j))
		}
		got, err := strconv.ParseFloat(string(n), 64)
		if err != nil {
			return fmt.Sprintf("%s %v rendered as %s (%v)", k, want, n, err)
		}
		if want == 0 && got == 0 {
			return "" // JSON has one zero; the sign of -0.0 is not a numeric difference
		}
		if math.Float64bits(got) != math.Float64bits(want) {
			return fmt.Sprintf("%s %v (bits %016x) rendered as %s = %v", k, want, math.Float64bits(want), n, got)
		}
	case pkEnum:
		v := int64(gv.(int32))
		if n, ok := j.(json.Number); ok && jsonIntEquals(n, v, 0, false) {
			return ""
		}
		if s, ok := j.(string); ok {
			for i, x := range f.Enum.Values {
				if int64(x) == v && f.Enum.Names[i] == s {
					return ""
				}
			}
		}
		return fmt.Sprintf("enum %d rendered as %s", v, jshow(j))
	default:
		if !k.isInt() {
			return "harness: unexpected kind " + k.String()
		}
		si, ui := asInt(k, gv)
		uns := k.isUnsigned()
		show := func() string {
			if uns {
				return strconv.FormatUint(ui, 10)
			}
			return strconv.FormatInt(si, 10)
		}
		switch x := j.(type) {
		case json.Number:
			if o.int642str && k == pkInt64 {
				return fmt.Sprintf("int64 %s rendered as a number although Int642String is set", show())
			}
			if !jsonIntEquals(x, si, ui, uns) {
				return fmt.Sprintf("%s %s rendered as %s", k, show(), x)
			}
		case string:
			// a quoted integer is acceptable only for 64-bit kinds under Int642String
			if !(o.int642str && k.is64()) {
				return fmt.Sprintf("%s %s rendered as string %q", k, show(), x)
			}
			if x != show() {
				return fmt.Sprintf("%s %s rendered as string %q", k, show(), x)
			}
		default:
			return fmt.Sprintf("%s %s rendered as %s", k, show(), jshow(j))
		}
	}
	return ""
}

func jshow(j interface{}) string {
	switch x := j.(type) {
	case nil:
		return "null"
	case string:
		return fmt.Sprintf("string %q", clip([]byte(x), 80))
	case json.Number:
		return "number " + string(x)
	case bool:
		return fmt.Sprintf("%v", x)
	case *jObj:
		return fmt.Sprintf("object(%d members)", len(x.Keys))
	case jArr:
		return fmt.Sprintf("array(%d)", len(x))
	}
	return fmt.Sprintf("%T", j)
}

// mapKey converts a JSON member name into the Go key type of the decoded map.
func mapKey(k pKind, s string) (interface{}, bool) {
	switch k {
	case pkString:
		return s, true
	case pkBool:
		if s == "true" {
			return true, true
		}
		if s == "false" {
			return false, true
		}
		return nil, false
	case pkInt32, pkSint32, pkSfixed32:
		v, err := strconv.ParseInt(s, 10, 32)
		return int32(v), err == nil && strconv.FormatInt(v, 10) == s
	case pkInt64, pkSint64, pkSfixed64:
		v, err := strconv.ParseInt(s, 10, 64)
		return v, err == nil && strconv.FormatInt(v, 10) == s
	case pkUint32, pkFixed32:
		v, err := strconv.ParseUint(s, 10, 32)
		return uint32(v), err == nil && strconv.FormatUint(v, 10) == s
	case pkUint64, pkFixed64:
		v, err := strconv.ParseUint(s, 10, 64)
		return v, err == nil && strconv.FormatUint(v, 10) == s
	}
	return nil, false
}

func (o *c08Oracle) value(f *PField, gv interface{}, j interface{}, path string) string {
	if f.K == pkMessage {
		sub, ok := gv.(*dynamic.Message)
		if !ok {
			return fmt.Sprintf("harness: %s decoded as %T", path, gv)
		}
		return o.msg(f.Msg, sub, j, path)
	}
	if d := o.scalar(f, f.K, gv, j, false); d != "" {
		o.tag(f.K.String())
		return path + ": " + d
	}
	return ""
}

// msg compares a JSON value with a reference-decoded message. "" = equal.
func (o *c08Oracle) msg(m *PMsg, dm *dynamic.Message, j interface{}, path string) string {
	obj, ok := j.(*jObj)
	if !ok {
		o.tag("shape")
		return fmt.Sprintf("%s: message rendered as %s", path, jshow(j))
	}
	seen := make([]bool, len(m.Fields))
	for ki, key := range obj.Keys {
		var f *PField
		for _, x := range m.Fields {
			if x.JSON == key {
				f = x
				break
			}
		}
		if f == nil {
			o.tag("unknown-member")
			return fmt.Sprintf("%s: member %q is not the JSON name of any field of %s", path, key, m.Name)
		}
		if seen[f.Idx] {
			o.tag("duplicate-member")
			return fmt.Sprintf("%s: member %q appears twice", path, key)
		}
		seen[f.Idx] = true
		jv := obj.Vals[ki]
		fp := path + "." + f.Name
		gv := dm.GetFieldByNumber(f.Num)
		switch f.Card {
		case cSingle:
			if d := o.value(f, gv, jv, fp); d != "" {
				return d
			}
		case cRepeated:
			arr, ok := jv.(jArr)
			if !ok {
				o.tag("shape")
				return fmt.Sprintf("%s: repeated field rendered as %s", fp, jshow(jv))
			}
			l := gv.([]interface{})
			if len(arr) != len(l) {
				o.tag("array-length")
				return fmt.Sprintf("%s: repeated field has %d elements, JSON array has %d", fp, len(l), len(arr))
			}
			for i := range l {
				if d := o.value(f, l[i], arr[i], fmt.Sprintf("%s[%d]", fp, i)); d != "" {
					return d
				}
			}
		case cMap:
			mo, ok := jv.(*jObj)
			if !ok {
				o.tag("shape")
				return fmt.Sprintf("%s: map rendered as %s", fp, jshow(jv))
			}
			mp := gv.(map[interface{}]interface{})
			if len(mo.Keys) != len(mp) {
				o.tag("map-size")
				return fmt.Sprintf("%s: map has %d entries, JSON object has %d members", fp, len(mp), len(mo.Keys))
			}
			for i, ks := range mo.Keys {
				for i2 := 0; i2 < i; i2++ {
					if mo.Keys[i2] == ks {
						o.tag("duplicate-member")
						return fmt.Sprintf("%s: map key %q appears twice", fp, ks)
					}
				}
				gk, ok := mapKey(f.KeyK, ks)
				if !ok {
					o.tag("map-key")
					return fmt.Sprintf("%s: member name %q is not a stringified %s key", fp, clip([]byte(ks), 60), f.KeyK)
				}
				mv, present := mp[gk]
				if !present {
					o.tag("map-key")
					return fmt.Sprintf("%s: JSON has key %q which the message does not have", fp, clip([]byte(ks), 60))
				}
				if d := o.value(f, mv, mo.Vals[i], fmt.Sprintf("%s[%q]", fp, clip([]byte(ks), 30))); d != "" {
					return d
				}
			}
		}
	}
	// every field that is on the wire must have been rendered
	for i, f := range m.Fields {
		if seen[i] {
			continue
		}
		present := false
		switch f.Card {
		case cSingle:
			present = dm.HasFieldNumber(f.Num)
		default:
			present = dm.FieldLengthByNumber(int32(f.Num)) > 0
		}
		if present {
			o.tag("missing-field")
			return fmt.Sprintf("%s: field %s (%s, JSON name %q) is in the message but not in the JSON", path, f.Name, f.typeText(), f.JSON)
		}
	}
	return ""
}

// invalidShape classifies malformed output by the first offending construct (part of the class).
func invalidShape(out []byte) string {
	for i := 0; i+1 < len(out); i++ {
		a, b := out[i], out[i+1]
		switch {
		case (a == ':' || a == '[' || a == ',') && (b == ',' || b == ']' || b == '}'):
			return "empty-value"
		case a == '"' && b == '"' && i+2 < len(out) && (out[i+2] == '-' || (out[i+2] >= '0' && out[i+2] <= '9')) && i > 0 && (out[i-1] == '{' || out[i-1] == ','):
			return "double-quoted-key"
		case (a == '{' || a == ',') && (b == '-' || (b >= '0' && b <= '9') || b == 't' || b == 'f') && keyFollows(out, i+1):
			return "unquoted-key"
		}
	}
	return "other"
}

// keyFollows: out[p:] is a bare token directly followed by ':'.
func keyFollows(out []byte, p int) bool {
	for q := p; q < len(out) && q < p+24; q++ {
		c := out[q]
		if c == ':' {
			return q > p
		}
		if !(c == '-' || (c >= '0' && c <= '9') || (c >= 'a' && c <= 'z')) {
			return false
		}
	}
	return false
}

// ---- environments

type p2jEnv struct {
	DoInto   bool
	CapClass int
	CapX     int // free capacity behind the prefix
	Prefix   int
	OutPlace int
	InPlace  int
}

var p2jCapNames = []string{"zero", "tiny", "len(in)", "2len(in)+-", "outlen-k", "huge"}

func (e p2jEnv) String() string {
	if !e.DoInto {
		return fmt.Sprintf("Do in=%s", simrt.PlaceNames[e.InPlace])
	}
	return fmt.Sprintf("DoInto cap=%s:%d prefix=%d out=%s in=%s", p2jCapNames[e.CapClass], e.CapX, e.Prefix, simrt.PlaceNames[e.OutPlace], simrt.PlaceNames[e.InPlace])
}

func drawP2JEnv(w *W, inLen, outLen int, first bool) p2jEnv {
	t := w.T
	var e p2jEnv
	e.DoInto = t.Chance(2, 3, "env.dointo")
	switch t.Intn(6, "env.inplace") {
	case 0, 1, 2:
		e.InPlace = simrt.PlaceHeap
	case 3, 4:
		e.InPlace = simrt.PlaceGuardEnd
	default:
		e.InPlace = simrt.PlaceReadOnly
	}
	if e.DoInto {
		e.CapClass = t.Intn(6, "env.capclass")
		if e.CapClass == 4 && outLen < 0 {
			e.CapClass = 3
		}
		switch e.CapClass {
		case 0:
			e.CapX = 0
		case 1:
			e.CapX = 1 + t.Intn(8, "env.cap.tiny")
		case 2:
			e.CapX = inLen
		case 3:
			e.CapX = 2*inLen - 2 + t.Intn(5, "env.cap.guard")
			if e.CapX < 0 {
				e.CapX = 0
			}
		case 4:
			e.CapX = outLen - t.Intn(25, "env.cap.k")
			if e.CapX < 0 {
				e.CapX = 0
			}
		default:
			e.CapX = 4096 + t.Intn(8192, "env.cap.huge")
		}
		if t.Chance(1, 4, "env.prefix") {
			e.Prefix = 1 + t.Intn(40, "env.prefix.n")
		}
		switch t.Intn(4, "env.outplace") {
		case 0:
			e.OutPlace = simrt.PlaceHeap
		case 1, 2:
			e.OutPlace = simrt.PlaceCanary
		default:
			e.OutPlace = simrt.PlaceGuardEnd
		}
	}
	return e
}

type p2jOutcome struct {
	Out  []byte
	Err  error
	Kept bool
}

// runP2J performs one conversion under env and checks the environment-level invariants.
func runP2J(w *W, cv *p2j.BinaryConv, desc *proto.TypeDescriptor, in []byte, env p2jEnv, ctx context.Context, facts map[string]string) p2jOutcome {
	ib := w.AllocData(in, env.InPlace)
	var res p2jOutcome
	if !env.DoInto {
		out, err := cv.Do(ctx, desc, ib.B)
		res.Out, res.Err = out, err
	} else {
		c := env.Prefix + env.CapX
		ob := w.Alloc(c, env.OutPlace)
		buf := ob.B
		for i := 0; i < env.Prefix; i++ {
			buf = append(buf, byte(0xC0+i%16))
		}
		err := cv.DoInto(ctx, desc, ib.B, &buf)
		res.Err = err
		res.Kept = ob.Owns(buf)
		if res.Kept {
			w.Count("dointo_kept_caller_buffer")
		} else {
			w.Count("dointo_regrown")
		}
		if len(buf) > cap(buf) {
			w.Failf("len-exceeds-cap", facts, "DoInto returned len(buf)=%d > cap(buf)=%d (env %s)", len(buf), cap(buf), env)
		}
		if !ob.CanaryOK() {
			w.Failf("canary", facts, "bytes after the caller buffer's capacity were overwritten (env %s, cap %d)", env, c)
		}
		if len(buf) < env.Prefix {
			w.Failf("prefix-modified", facts, "DoInto shrank the buffer below the caller's prefix (env %s)", env)
		}
		for i := 0; i < env.Prefix; i++ {
			if buf[i] != byte(0xC0+i%16) {
				w.Failf("prefix-modified", facts, "DoInto modified the caller's prefix at %d (env %s)", i, env)
			}
		}
		res.Out = buf[env.Prefix:]
	}
	if !bytes.Equal(ib.B, in) {
		w.Failf("input-modified", facts, "conversion modified its input (env %s)", env)
	}
	return res
}

// unknownRecord renders one record with a field number the schema does not have.
func unknownRecord(w *W, root *PMsg) []byte {
	t := w.T
	num := 0
	for _, c := range []int{7, 1, 16, 2047, 2048, 99999, 536870911, 3, 100} {
		c += t.Intn(3, "unk.num")
		if root.ByNum(c) == nil && !(c >= 19000 && c <= 19999) && c <= 536870911 {
			num = c
			if t.Chance(1, 2, "unk.num.take") {
				break
			}
		}
	}
	if num == 0 {
		num = 536870900
		for root.ByNum(num) != nil {
			num--
		}
	}
	var b []byte
	switch t.Intn(4, "unk.wt") {
	case 0:
		b = protowire.AppendTag(b, protowire.Number(num), protowire.VarintType)
		b = protowire.AppendVarint(b, []uint64{0, 1, 300, math.MaxUint64}[t.Intn(4, "unk.varint")])
	case 1:
		b = protowire.AppendTag(b, protowire.Number(num), protowire.Fixed32Type)
		b = protowire.AppendFixed32(b, 0xdeadbeef)
	case 2:
		b = protowire.AppendTag(b, protowire.Number(num), protowire.Fixed64Type)
		b = protowire.AppendFixed64(b, 0x0123456789abcdef)
	default:
		b = protowire.AppendTag(b, protowire.Number(num), protowire.BytesType)
		n := sizeClass(t, "unk.len", 300)
		p := make([]byte, n)
		for i := range p {
			p[i] = byte(0x80 + i) // looks like unterminated varints: must be skipped by length, not parsed
		}
		b = protowire.AppendBytes(b, p)
	}
	return b
}

// spliceUnknown inserts 1-2 unknown records at top-level record boundaries where the neighbours
// have different field numbers (so no repeated field / map is split).
func spliceUnknown(w *W, root *PMsg, in []byte) ([]byte, int) {
	t := w.T
	n := 1 + t.Intn(2, "unk.n")
	for i := 0; i < n; i++ {
		// sometimes the unknown record goes INTO a nested message (a singular message field, the element of
		// a repeated message field or a message-typed map value): the record's length prefix is rewritten
		if t.Chance(1, 2, "unk.nested") {
			offs, nums := splitTopLevel(in)
			var cands []int
			for j := 0; j+1 < len(offs); j++ {
				f := root.ByNum(nums[j])
				if f == nil || f.K != pkMessage || f.Card == cMap {
					continue
				}
				if _, wt, tn := protowire.ConsumeTag(in[offs[j]:]); tn > 0 && wt == protowire.BytesType {
					cands = append(cands, j)
				}
			}
			if len(cands) > 0 {
				j := cands[t.Intn(len(cands), "unk.nested.which")]
				_, _, tn := protowire.ConsumeTag(in[offs[j]:])
				body, bn := protowire.ConsumeBytes(in[offs[j]+tn:])
				if bn > 0 {
					nb, _ := spliceUnknown1(w, root.ByNum(nums[j]).Msg, append([]byte{}, body...))
					o := append([]byte{}, in[:offs[j]+tn]...)
					o = protowire.AppendBytes(o, nb)
					o = append(o, in[offs[j+1]:]...)
					in = o
					w.Count("unknown_in_nested_message")
					continue
				}
			}
		}
		offs, nums := splitTopLevel(in)
		var cands []int
		for j, o := range offs {
			if j == 0 || j == len(offs)-1 || nums[j-1] != nums[j] {
				cands = append(cands, o)
			}
		}
		// last boundary first: 0 on the tape = append at the end
		at := cands[len(cands)-1-t.Intn(len(cands), "unk.at")]
		rec := unknownRecord(w, root)
		o := make([]byte, 0, len(in)+len(rec))
		o = append(o, in[:at]...)
		o = append(o, rec...)
		o = append(o, in[at:]...)
		in = o
	}
	return in, n
}

// spliceUnknown1 inserts exactly one unknown record at a record boundary of msg (of message type m).
func spliceUnknown1(w *W, m *PMsg, in []byte) ([]byte, int) {
	t := w.T
	offs, nums := splitTopLevel(in)
	var cands []int
	for j, o := range offs {
		if j == 0 || j == len(offs)-1 || nums[j-1] != nums[j] {
			cands = append(cands, o)
		}
	}
	at := cands[len(cands)-1-t.Intn(len(cands), "unk.at")]
	rec := unknownRecord(w, m)
	o := make([]byte, 0, len(in)+len(rec))
	o = append(o, in[:at]...)
	o = append(o, rec...)
	o = append(o, in[at:]...)
	return o, 1
}

func boolStr(b bool) string {
	if b {
		return "true"
	}
	return "false"
}

func drawP2JKnobs(w *W) {
	t := w.T
	resetKnobs()
	conv.DefaultBufferSize = 4096
	if t.Chance(1, 2, "knob.any") {
		conv.DefaultBufferSize = pickInt(t, "knob.bufsize", 4096, 1, 16, 65536)
		w.Sig(fmt.Sprintf("bufsize:%d", conv.DefaultBufferSize))
	}
	if t.Chance(1, 3, "knob.gc") {
		w.World.GCNum, w.World.GCDen, w.World.GCBudget = 1, pickInt(t, "knob.gcden", 4, 16, 64), 3
		w.Sig("gc")
	}
	w.World.PoolFreshPct = pickInt(t, "knob.poolfresh", 20, 0, 50, 100)
}

func runC08(w *W) {
	t := w.T
	drawP2JKnobs(w)
	flavour := drawFlavour(w)

	// ---- generator switches that enable the precondition of a known library defect. Each is rare
	// so that the neighbourhood is explored without tripping over it; each is reported in `facts`.
	swU64High := t.Chance(1, 12, "sw.u64high")
	swOddKeys := t.Chance(1, 12, "sw.oddkeys")
	swShared := t.Chance(1, 12, "sw.sharednums")
	swNonFinite := t.Chance(1, 12, "sw.nonfinite")
	swFix32High := t.Chance(1, 12, "sw.fix32high")
	swI64KeyQuoted := t.Chance(1, 12, "sw.i64keyquoted")

	so := pgenOpts{MaxMsgs: 1 + t.Intn(4, "sch.msgs"), MaxFields: 1 + t.Intn(8, "sch.fields"), BigNums: t.Chance(1, 3, "sch.bignums"), HugeNums: t.Chance(1, 8, "sch.hugenums"),
		Recursive: t.Chance(1, 3, "sch.rec"), JSONNames: t.Chance(1, 3, "sch.jsonnames"), Enums: t.Chance(1, 2, "sch.enums"), SharedNumbers: swShared, UnpackedScalars: t.Chance(1, 4, "sch.unpacked")}
	if swOddKeys {
		so.KeyKinds = append(append([]pKind{}, plainKeyKinds...), oddKeyKinds...)
	}
	opts := conv.Options{Int642String: t.Chance(1, 3, "opt.int642string"), DisallowUnknownField: t.Chance(1, 5, "opt.disallow")}
	if opts.Int642String && !swI64KeyQuoted {
		// map<int64,_> under Int642String is the precondition of a known defect (key quoted twice)
		var ks []pKind
		src := so.KeyKinds
		if src == nil {
			src = plainKeyKinds
		}
		for _, k := range src {
			if k != pkInt64 {
				ks = append(ks, k)
			}
		}
		so.KeyKinds = ks
	}
	sch := genPSchema(t, so)
	desc := parseProto(w, sch)
	w.Logf("schema:\n%s", sch.Text)

	cv := p2j.NewBinaryConv(opts)
	if t.Chance(1, 4, "reopt.use") {
		// the converter starts life with other options and gets these by SetOptions
		cv = p2j.NewBinaryConv(otherOpts(t, opts))
		cv.SetOptions(opts)
		w.Count("converter_reconfigured_by_SetOptions")
	}
	strict := p2j.NewBinaryConv(conv.Options{DisallowUnknownField: true, Int642String: opts.Int642String})
	w.Logf("conv.Options: Int642String=%v DisallowUnknownField=%v  flavour=%s bufsize=%d", opts.Int642String, opts.DisallowUnknownField, flavour, conv.DefaultBufferSize)
	ctx := context.Background()
	oracle := &c08Oracle{s: sch, int642str: opts.Int642String}

	ndocs := 1 + t.Intn(4, "ndocs")
	for d := 0; d < ndocs; d++ {
		vo := pvgenOpts{MaxElems: 1 + t.Intn(8, "val.elems"), MaxStr: 1 + sizeClass(t, "val.maxstr", 5000), Depth: 1 + t.Intn(4, "val.depth"),
			PresentPct: pickInt(t, "val.present", 70, 100, 30, 0), U64High: swU64High, Fix32High: swFix32High, NonFinite: swNonFinite, EmptyMsgs: true}
		mv, vg := genPMessage(t, sch, vo)
		ref := sch.refEncode(mv)
		in := ref
		nunk := 0
		if t.Chance(1, 4, "doc.unknown") {
			in, nunk = spliceUnknown(w, sch.Root(), ref)
		}
		// the reference-decoded message is what the JSON must denote
		dm := dynamic.NewMessage(sch.Root().MD)
		if err := dm.Unmarshal(in); err != nil {
			w.Failf("harness-ref", nil, "reference cannot decode its own encoding: %v", err)
		}
		wf := wireFacts(sch, in)
		// facts: only what is "on" (preconditions of known defects + option/environment classes)
		facts := map[string]string{}
		setFact := func(k string, on bool) {
			if on {
				facts[k] = "true"
			}
		}
		setFact("u64_high", vg.UsedU64High)
		setFact("fix32_high", vg.UsedFix32High)
		setFact("nonfinite", vg.UsedNonFinite)
		setFact("list_boundary", wf.ListBoundary)
		setFact("int64_key_quoted", opts.Int642String && wf.Int64MapKey)
		setFact("unknown_fields", nunk > 0)
		if wf.OddMapKey != "" {
			facts["odd_map_key"] = wf.OddMapKey
		}
		expectErr := nunk > 0 && opts.DisallowUnknownField
		w.Logf("doc %d: %d bytes (+%d unknown records) %s", d, len(in), nunk, hexClip(in, 300))

		nenv := 2 + t.Intn(3, "nenv")
		outLen := -1
		var firstOut []byte
		haveFirst := false
		firstEnv := ""
		for k := 0; k < nenv; k++ {
			// optionally a failing conversion right before the checked one (dirty pooled state)
			if t.Chance(1, 5, "pre.fail") {
				runFailingP2J(w, &cv, &strict, desc, sch, in, ctx)
			}
			env := drawP2JEnv(w, len(in), outLen, k == 0)
			w.NextOp(fmt.Sprintf("p2j doc %d env %s", d, env))
			facts["env"] = env.String()
			w.opFacts = facts
			r := runP2J(w, &cv, desc, in, env, ctx, facts)
			w.opFacts = nil
			t.NoteBytes(r.Out)
			if env.DoInto {
				w.Sig("cap:" + p2jCapNames[env.CapClass] + "/" + simrt.PlaceNames[env.OutPlace])
				w.Count("cap_" + p2jCapNames[env.CapClass])
				if env.Prefix > 0 {
					w.Count("prefix_nonempty")
				}
			} else {
				w.Sig("do/" + simrt.PlaceNames[env.InPlace])
			}
			w.Count("in_" + simrt.PlaceNames[env.InPlace])
			if expectErr {
				if r.Err == nil {
					w.Failf("unknown-accepted", facts, "unknown field with DisallowUnknownField but conversion succeeded (env %s): %s", env, clip(r.Out, 300))
				}
				w.Count("unknown_rejected")
				continue
			}
			if r.Err != nil {
				// the statement allows an error only instead of a wrong result; for finite, supported
				// values an error on a reference-encoded message is a rejection of a conforming input
				if vg.UsedNonFinite {
					w.Count("nonfinite_rejected")
					continue
				}
				w.Failf("conforming-rejected", facts, "reference-encoded message rejected (env %s): %v\ninput: %s", env, r.Err, hexClip(in, 400))
			}
			if nunk > 0 {
				w.Count("unknown_skipped")
			}
			if haveFirst {
				if !bytes.Equal(r.Out, firstOut) {
					w.Failf("env-dependent", facts, "same message, same options, different output\n env %s: %s\n env %s: %s", firstEnv, clip(firstOut, 400), env, clip(r.Out, 400))
				}
				w.Count("outputs_equal_across_envs")
				continue
			}
			// first successful output of this document: full oracle
			js, perr := pParseJSONStrict(r.Out)
			if perr != nil {
				w.Failf("invalid-json:"+invalidShape(r.Out), facts, "nil error but the output is not valid JSON (%v) (env %s)\noutput: %s\ninput: %s", perr, env, clip(r.Out, 600), hexClip(in, 400))
			}
			oracle.cause = ""
			if diff := oracle.msg(sch.Root(), dm, js, "$"); diff != "" {
				w.Failf("wrong-json:"+oracle.cause, facts, "%s (env %s)\noutput: %s\ninput: %s", diff, env, clip(r.Out, 600), hexClip(in, 400))
			}
			w.Count("docs_verified")
			haveFirst, firstOut, firstEnv = true, append([]byte(nil), r.Out...), env.String()
			outLen = len(r.Out)
			if outLen > 2*len(in) {
				w.Count("output_longer_than_guard")
			}
		}
	}
	w.sample = map[string]interface{}{"schema_bytes": len(sch.Text), "msgs": len(sch.Msgs), "docs": ndocs,
		"options": fmt.Sprintf("Int642String=%v DisallowUnknownField=%v", opts.Int642String, opts.DisallowUnknownField), "flavour": flavour}
}

// runFailingP2J runs a conversion that is expected to fail (or at least to be abandoned early):
// the input truncated at a tape-chosen offset, or an unknown record under DisallowUnknownField.
// Its result is not judged (a damaged message is C06's subject); it only has to leave the pooled
// state in whatever condition a failing call leaves it. A logical-step budget stops loops.
func runFailingP2J(w *W, cv, strict *p2j.BinaryConv, desc *proto.TypeDescriptor, sch *PSchema, in []byte, ctx context.Context) {
	t := w.T
	kind := t.Intn(2, "pre.kind")
	var bad []byte
	use := cv
	if kind == 0 && len(in) > 1 {
		bad = append([]byte(nil), in[:1+t.Intn(len(in)-1, "pre.cut")]...)
		w.NextOp(fmt.Sprintf("p2j precursor: input truncated to %d of %d bytes", len(bad), len(in)))
	} else {
		bad = append(append([]byte(nil), unknownRecord(w, sch.Root())...), in...)
		use = strict
		w.NextOp("p2j precursor: unknown record + DisallowUnknownField")
	}
	w.opFacts = map[string]string{"precursor": "true"}
	saved := w.World.StepLimit
	w.World.StepLimit = w.World.Steps + 20000
	func() {
		defer func() {
			if r := recover(); r != nil {
				if _, ok := r.(simrt.StepLimitExceeded); ok {
					w.Count("precursor_step_budget_exceeded")
					w.Logf("  precursor: logical step budget exceeded (loop without progress on a damaged message; C06 territory)")
					return
				}
				if v, ok := r.(*Violation); ok {
					panic(v)
				}
				// a crash on a damaged message is C06's subject, not C08's: note it and go on
				w.Count("precursor_panicked")
				w.Logf("  precursor: library panicked on the damaged message: %v", r)
			}
		}()
		var err error
		if t.Chance(1, 2, "pre.api") {
			_, err = use.Do(ctx, desc, bad)
		} else {
			buf := make([]byte, 0, 64)
			err = use.DoInto(ctx, desc, bad, &buf)
		}
		if err != nil {
			w.Count("precursor_failed")
		} else {
			w.Count("precursor_succeeded")
		}
	}()
	w.World.StepLimit = saved
	w.opFacts = nil
}
