package main

import (
	"fmt"
	"runtime/debug"
	"sort"
	"strings"

	"github.com/cloudwego/dynamicgo/internal/simrt"
)

// W is the harness view of one world.
type W struct {
	*simrt.World
	T       *simrt.Tape
	Prop    string
	tracing bool
	log     []string
	stats   map[string]uint64
	sig     []string
	sample  interface{}
	bufs    []*simrt.Buf
	opSeq   int
	pat     byte
	// opFacts are attached to a violation raised by a panic (library crash) during the current operation.
	opFacts map[string]string
	// worldFacts are attached to every violation of this world (facts about the workload as a whole).
	worldFacts map[string]string
	// cmp is the comparison digest of flavour-independent results (C18 cross-build differential).
	cmp    uint64
	cmpSet bool
}

func (w *W) cmpMix(b []byte) {
	if !w.cmpSet {
		w.cmp, w.cmpSet = 0xcbf29ce484222325, true
	}
	for _, c := range b {
		w.cmp ^= uint64(c)
		w.cmp *= 0x100000001b3
	}
	w.cmp ^= uint64(len(b)) + 0x9e37
	w.cmp *= 0x100000001b3
}

func newW(prop string, t *simrt.Tape, trace bool) *W {
	w := &W{World: &simrt.World{Tape: t}, T: t, Prop: prop, tracing: trace, stats: map[string]uint64{}}
	if trace {
		w.World.Events = func(s string) { w.log = append(w.log, "  env: "+s) }
	}
	w.pat = 0xA5
	return w
}

func (w *W) Logf(format string, a ...interface{}) {
	if w.tracing {
		w.log = append(w.log, fmt.Sprintf(format, a...))
	}
}

// Count bumps a named counter (fault kinds fired, rare-branch probes).
func (w *W) Count(name string) { w.stats[name]++ }
func (w *W) CountN(name string, n uint64) {
	if n > 0 {
		w.stats[name] += n
	}
}

// Sig adds a component to the environment signature of this world.
func (w *W) Sig(s string) { w.sig = append(w.sig, s) }

func (w *W) signature() string {
	if len(w.sig) == 0 {
		return ""
	}
	s := append([]string(nil), w.sig...)
	sort.Strings(s)
	// de-duplicate
	o := s[:0]
	for i, x := range s {
		if i == 0 || x != s[i-1] {
			o = append(o, x)
		}
	}
	return strings.Join(o, "|")
}

func (w *W) Failf(kind string, facts map[string]string, format string, a ...interface{}) {
	// facts of the running operation complete the oracle's own facts
	if w.opFacts != nil {
		if facts == nil {
			facts = map[string]string{}
		}
		for _, k := range sortedFactKeys(w.opFacts) {
			if _, ok := facts[k]; !ok {
				facts[k] = w.opFacts[k]
			}
		}
	}
	if w.worldFacts != nil {
		if facts == nil {
			facts = map[string]string{}
		}
		for _, k := range sortedFactKeys(w.worldFacts) {
			if _, ok := facts[k]; !ok {
				facts[k] = w.worldFacts[k]
			}
		}
	}
	panic(&Violation{Class: w.Prop + "/" + kind, Detail: fmt.Sprintf(format, a...), Facts: facts})
}

// NextOp starts a new logical operation (provenance for pool objects).
func (w *W) NextOp(desc string) int {
	w.opSeq++
	w.World.SetOp(w.opSeq)
	if w.tracing {
		w.log = append(w.log, fmt.Sprintf("op %d: %s", w.opSeq, desc))
	}
	return w.opSeq
}

// Alloc returns a tracked harness buffer.
func (w *W) Alloc(c int, place int) *simrt.Buf {
	b := simrt.Alloc(c, place, w.pat)
	w.bufs = append(w.bufs, b)
	return b
}

func (w *W) AllocData(d []byte, place int) *simrt.Buf {
	b := simrt.AllocData(d, place, w.pat)
	w.bufs = append(w.bufs, b)
	return b
}

func (w *W) release() {
	for _, b := range w.bufs {
		b.Free()
	}
	w.bufs = nil
}

func (w *W) collectStats() map[string]uint64 {
	m := w.stats
	for i, v := range w.World.Stats {
		if v > 0 {
			m[simrt.StatNames[i]] += v
		}
	}
	for i, v := range w.World.SiteHits {
		if v > 0 && i < len(simrt.SiteNames) {
			n := simrt.SiteNames[i]
			if strings.Contains(n, "#") || probeSites[n] {
				m["site:"+n] += uint64(v)
			}
		}
	}
	return m
}

// probeSites are yield sites whose hit counts are reported as rare-branch probes.
var probeSites = map[string]bool{
	"internal/native/types.(*J2TStateMachine).GrowReqCache":   true,
	"internal/native/types.(*J2TStateMachine).GrowKeyCache":   true,
	"internal/native/types.(*J2TStateMachine).GrowFieldCache": true,
	"conv/j2t.(*BinaryConv).handleUnmatchedFields":            true,
	"conv/j2t.(*BinaryConv).handleValueMapping":               true,
	"conv/j2t.(*BinaryConv).handleHttpMappings":               true,
	"conv/j2t.(BinaryConv).handleError":                       true,
	"internal/json.NoQuote":                                   true,
	"internal/json.Quote":                                     true,
	"internal/json.EncodeString":                              true,
	"thrift.(*RequiresBitmap).malloc":                         true,
	"thrift.(RequiresBitmap).CopyTo":                          true,
	"thrift/generic.guardPathNodeSlice":                       true,
	"thrift/generic.resetPathNodeSlots":                       true,
	"thrift/generic.(*Node).setNotFound":                      true,
	"thrift/generic.(*Node).replaceMany":                      true,
}

// ---- small tape helpers used by all generators

// pick returns one of xs.
func pickInt(t *simrt.Tape, label string, xs ...int) int { return xs[t.Intn(len(xs), label)] }

// sizeClass draws a size from a heavy-tailed distribution straddling the constants in the code.
func sizeClass(t *simrt.Tape, label string, max int) int {
	var n int
	switch t.Intn(10, label+".cls") {
	case 0, 1, 2:
		n = t.Intn(4, label)
	case 3, 4:
		n = t.Intn(18, label)
	case 5:
		n = 14 + t.Intn(5, label) // 14..18 (SIMD 16)
	case 6:
		n = 30 + t.Intn(5, label) // 30..34 (SIMD 32)
	case 7:
		n = t.Intn(130, label)
	case 8:
		n = pickInt(t, label, 63, 64, 65, 127, 128, 129, 255, 256, 257, 799, 800, 801, 1023, 1024, 1025)
	default:
		n = pickInt(t, label, 4095, 4096, 4097, 2000, 3000, 5000)
	}
	if n > max {
		n = n % (max + 1)
	}
	return n
}

// withTail returns a copy of d that is a prefix of a larger array owned by the caller (as a document cut out
// of a receive buffer is), and a function telling whether the bytes behind the document are still intact.
func withTail(d []byte) ([]byte, func() bool) {
	const tail = 24
	whole := make([]byte, len(d)+tail)
	copy(whole, d)
	for i := len(d); i < len(whole); i++ {
		whole[i] = 0xA5
	}
	return whole[:len(d)], func() bool {
		for i := len(d); i < len(whole); i++ {
			if whole[i] != 0xA5 {
				return false
			}
		}
		return true
	}
}

// onFreshStack runs f on a new goroutine (small initial stack) below depth padding frames, so that the
// goroutine's stack has to grow somewhere inside f - at a point that moves with depth. Stack-allocated
// variables are moved by a growth; code that keeps their addresses in uintptr form across calls breaks.
// Panics of f are re-raised on the caller's goroutine.
func onFreshStack(w *W, depth int, f func()) {
	done := make(chan interface{}, 1)
	go func() {
		defer func() {
			// the violation is built here, where the panicking stack (and its innermost library frame) still is
			if r := recover(); r != nil {
				done <- panicToViolation(w.Prop, r)
			} else {
				done <- nil
			}
		}()
		debug.SetPanicOnFault(true) // per goroutine: a guard-page hit must stay a recoverable panic here too
		padStack(depth, f)
	}()
	if r := <-done; r != nil {
		panic(r)
	}
}

//go:noinline
func padStack(n int, f func()) byte {
	var pad [96]byte
	pad[n%96] = byte(n)
	if n == 0 {
		f()
	} else {
		pad[0] = padStack(n-1, f)
	}
	return pad[n%96]
}

// callOn runs one library call either on the world's own goroutine or (one time in four) on a fresh
// goroutine at a tape-chosen stack depth.
func callOn(w *W, f func()) {
	if w.T.Chance(1, 4, "env.freshstack") {
		d := w.T.Intn(80, "env.freshstack.depth")
		w.Count("calls_on_fresh_stack")
		onFreshStack(w, d, f)
		return
	}
	f()
}
