package main

import (
	"encoding/base64"
	"fmt"
	"math"
	"strconv"
	"strings"
	"unicode/utf8"

	"github.com/cloudwego/dynamicgo/internal/simrt"
)

// jsonStyle renders a model value as JSON text with tape-chosen spelling.
type jsonStyle struct {
	t          *simrt.Tape
	WS         int  // 0 none, 1 sparse, 2 heavy
	Esc        int  // 0 minimal, 1 mixed, 2 \u everywhere
	Num        int  // 0 canonical, 1 varied
	QuoteNums  bool // String2Int64: numbers as strings (tape decides per number)
	NoBase64   bool
	TrailingWS int // spaces before the final closing bracket (capacity probes use this)
	// NegZeroInt allows a double -0.0 to be spelled "-0" (integer spelling). The native number
	// scanner loses the sign for that spelling (known finding); most worlds spell it "-0.0".
	NegZeroInt  bool
	UsedNegZero bool
	// ValueMapping: members of api.js_conv fields are spelled as the mapping accepts them (a string holding the number,
	// or the bare number)
	ValueMapping   bool
	UsedJSConv     int
	UsedJSConvI16  int // i16 members among them (known finding F43)
	UsedJSConvNull int // null members of api.js_conv fields (known finding F44)
	// Override renders the given model values with a fixed literal (kind-contradicting documents).
	Override map[*TVal]string
}

var wsPieces = []string{" ", "\n", "\t", "\r\n", "  ", " \n "}

func (s *jsonStyle) ws(sb *strings.Builder) {
	switch s.WS {
	case 1:
		if s.t.Chance(1, 8, "ws") {
			sb.WriteString(wsPieces[s.t.Intn(len(wsPieces), "ws.p")])
		}
	case 2:
		if s.t.Chance(1, 2, "ws") {
			sb.WriteString(wsPieces[s.t.Intn(len(wsPieces), "ws.p")])
		}
	}
}

func (s *jsonStyle) str(sb *strings.Builder, b []byte) {
	sb.WriteByte('"')
	for i := 0; i < len(b); {
		r, n := utf8.DecodeRune(b[i:])
		if r == utf8.RuneError && n == 1 {
			// invalid byte: pass through raw (only generated for binary-as-text worlds)
			sb.WriteByte(b[i])
			i++
			continue
		}
		must := r < 0x20 || r == '"' || r == '\\'
		useU := false
		if must {
			switch s.Esc {
			case 0:
				useU = false
			case 1:
				useU = s.t.Chance(1, 3, "esc.u")
			default:
				useU = true
			}
			short := ""
			switch r {
			case '"':
				short = `\"`
			case '\\':
				short = `\\`
			case '\n':
				short = `\n`
			case '\t':
				short = `\t`
			case '\r':
				short = `\r`
			case '\b':
				short = `\b`
			case '\f':
				short = `\f`
			}
			if short == "" || useU {
				s.u16(sb, r)
			} else {
				sb.WriteString(short)
			}
		} else {
			esc := false
			switch s.Esc {
			case 1:
				esc = s.t.Chance(1, 12, "esc.opt")
			case 2:
				esc = true
			}
			if esc {
				if r == '/' && s.t.Chance(1, 2, "esc.slash") {
					sb.WriteString(`\/`)
				} else {
					s.u16(sb, r)
				}
			} else {
				sb.Write(b[i : i+n])
			}
		}
		i += n
	}
	sb.WriteByte('"')
}

func (s *jsonStyle) u16(sb *strings.Builder, r rune) {
	hex := "%04x"
	if s.Esc == 1 && s.t.Chance(1, 2, "esc.upper") {
		hex = "%04X"
	}
	if r >= 0x10000 {
		r -= 0x10000
		fmt.Fprintf(sb, `\u`+hex+`\u`+hex, 0xd800+(r>>10), 0xdc00+(r&0x3ff))
		return
	}
	fmt.Fprintf(sb, `\u`+hex, r)
}

func (s *jsonStyle) intText(v int64) string {
	if s.Num == 1 && v != 0 && v%10 == 0 && v > -(1<<31) && v < (1<<31) && s.t.Chance(1, 6, "num.intexp") {
		// an integer spelled with an exponent: 1200 -> 12e2
		e := 0
		m := v
		for m%10 == 0 {
			m /= 10
			e++
		}
		return fmt.Sprintf("%de%d", m, e)
	}
	return strconv.FormatInt(v, 10)
}

func (s *jsonStyle) floatText(f float64) string {
	if f == 0 && math.Signbit(f) {
		if s.NegZeroInt {
			s.UsedNegZero = true
			return "-0"
		}
		return "-0.0"
	}
	if s.Num == 0 {
		return strconv.FormatFloat(f, 'g', -1, 64)
	}
	var out string
	switch s.t.Intn(5, "num.fmt") {
	case 0:
		out = strconv.FormatFloat(f, 'g', -1, 64)
	case 1:
		out = strconv.FormatFloat(f, 'e', -1, 64)
	case 2:
		out = strconv.FormatFloat(f, 'E', -1, 64)
	case 3:
		if math.Abs(f) < 1e21 && (math.Abs(f) > 1e-7 || f == 0) {
			out = strconv.FormatFloat(f, 'f', -1, 64)
		} else {
			out = strconv.FormatFloat(f, 'g', -1, 64)
		}
	default:
		// more digits than necessary
		out = strconv.FormatFloat(f, 'e', 20, 64)
	}
	// JSON does not allow "+": strconv emits e+06 -> valid JSON allows '+' in exponent, keep.
	return out
}

// jsconv spells the member of an api.js_conv field under EnableValueMapping.
func (s *jsonStyle) jsconv(sb *strings.Builder, v *TVal) {
	if s.Override != nil {
		if lit, ok := s.Override[v]; ok {
			sb.WriteString(lit)
			return
		}
	}
	s.UsedJSConv++
	if v.T.Kind == tI16 {
		s.UsedJSConvI16++
	}
	quoted := s.t.Chance(2, 3, "jsconv.quoted")
	switch v.T.Kind {
	case tBYTE, tI16, tI32, tI64:
		if quoted {
			sb.WriteString(`"` + strconv.FormatInt(v.I, 10) + `"`)
		} else {
			sb.WriteString(strconv.FormatInt(v.I, 10))
		}
	case tDOUBLE:
		tx := v.NumText
		if tx == "" {
			tx = s.floatText(v.D)
		}
		if quoted {
			sb.WriteString(`"` + tx + `"`)
		} else {
			sb.WriteString(tx)
		}
	default:
		s.value(sb, v)
	}
}

func (s *jsonStyle) value(sb *strings.Builder, v *TVal) {
	if s.Override != nil {
		if lit, ok := s.Override[v]; ok {
			sb.WriteString(lit)
			return
		}
	}
	switch v.T.Kind {
	case tBOOL:
		if v.B {
			sb.WriteString("true")
		} else {
			sb.WriteString("false")
		}
	case tBYTE, tI16, tI32, tI64:
		if s.QuoteNums && s.t.Chance(1, 2, "num.quote") {
			sb.WriteString(`"` + strconv.FormatInt(v.I, 10) + `"`)
		} else {
			sb.WriteString(s.intText(v.I))
		}
	case tDOUBLE:
		if v.NumText != "" {
			sb.WriteString(v.NumText)
			return
		}
		if s.QuoteNums && s.t.Chance(1, 2, "num.quote") {
			sb.WriteString(`"` + s.floatText(v.D) + `"`)
		} else {
			sb.WriteString(s.floatText(v.D))
		}
	case tSTRING:
		if v.T.Binary && !s.NoBase64 {
			sb.WriteString(`"` + base64.StdEncoding.EncodeToString(v.S) + `"`)
		} else {
			s.str(sb, v.S)
		}
	case tSTRUCT:
		sb.WriteByte('{')
		first := true
		for _, fv := range v.Fields {
			if !first {
				s.ws(sb)
				sb.WriteByte(',')
			}
			first = false
			s.ws(sb)
			if fv.F == nil {
				s.str(sb, []byte(fv.UnknownKey))
				s.ws(sb)
				sb.WriteByte(':')
				s.ws(sb)
				sb.WriteString(fv.UnknownJSON)
				continue
			}
			s.str(sb, []byte(fv.F.Key()))
			s.ws(sb)
			sb.WriteByte(':')
			s.ws(sb)
			if fv.V == nil {
				if s.ValueMapping && fv.F.JSConv {
					s.UsedJSConvNull++
				}
				sb.WriteString("null")
			} else if s.ValueMapping && fv.F.JSConv {
				s.jsconv(sb, fv.V)
			} else {
				s.value(sb, fv.V)
			}
		}
		s.ws(sb)
		sb.WriteByte('}')
	case tLIST, tSET:
		sb.WriteByte('[')
		for i, e := range v.List {
			if i > 0 {
				s.ws(sb)
				sb.WriteByte(',')
			}
			s.ws(sb)
			s.value(sb, e)
		}
		s.ws(sb)
		sb.WriteByte(']')
	case tMAP:
		sb.WriteByte('{')
		for i := range v.Keys {
			if i > 0 {
				s.ws(sb)
				sb.WriteByte(',')
			}
			s.ws(sb)
			k := v.Keys[i]
			switch k.T.Kind {
			case tSTRING:
				s.str(sb, k.S)
			case tDOUBLE:
				sb.WriteString(`"` + strconv.FormatFloat(k.D, 'g', -1, 64) + `"`)
			default:
				sb.WriteString(`"` + strconv.FormatInt(k.I, 10) + `"`)
			}
			s.ws(sb)
			sb.WriteByte(':')
			s.ws(sb)
			s.value(sb, v.Vals[i])
		}
		s.ws(sb)
		sb.WriteByte('}')
	}
}

func (s *jsonStyle) render(v *TVal) []byte {
	var sb strings.Builder
	s.ws(&sb)
	s.value(&sb, v)
	out := sb.String()
	if s.TrailingWS > 0 && len(out) > 0 {
		out = out[:len(out)-1] + strings.Repeat(" ", s.TrailingWS) + out[len(out)-1:]
	}
	return []byte(out)
}
