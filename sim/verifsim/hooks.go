package main

import (
	"fmt"
	"unsafe"

	"github.com/cloudwego/dynamicgo/internal/native/types"
	"github.com/cloudwego/dynamicgo/internal/simrt"
	"github.com/cloudwego/dynamicgo/thrift"
)

// Knobs are world-level environment settings consulted by the pool hooks.
type Knobs struct {
	KeyCap     int // capacity of fresh J2TStateMachine.KeyCache   (-1 = library default)
	FieldCap   int // capacity of fresh J2TStateMachine.FieldCache (-1 = default)
	ReqsCap    int // capacity of fresh J2TStateMachine.ReqsCache  (-1 = default)
	BitmapOnes bool
	PBBufCap   int // capacity of a fresh proto/binary write buffer (-1 = default)
}

var knobs = Knobs{KeyCap: -1, FieldCap: -1, ReqsCap: -1, PBBufCap: -1}

func resetKnobs() { knobs = Knobs{KeyCap: -1, FieldCap: -1, ReqsCap: -1, PBBufCap: -1} }

const poisonByte = 0xDB

// poisonFor returns the poison pattern of the current Put. It changes from one Put to the next:
// with a constant pattern a result that aliases a pooled buffer would look unchanged after the
// buffer has been reused and poisoned again.
//
//go:norace
func poisonFor(w *simrt.World) byte { return byte(0x80 | (w.Stats[simrt.StatPoolPut]*7)&0x7f) }

//go:norace
func fillBytes(b []byte, v byte) {
	for i := range b {
		b[i] = v
	}
}

//go:norace
func firstDisturbed(b []byte, v byte) int {
	for i := range b {
		if b[i] != v {
			return i
		}
	}
	return -1
}

//go:norace
func fillFieldIDs(s []int32) {
	s = s[:cap(s)]
	for i := range s {
		s[i] = int32(i%12 + 1)
	}
}

//go:norace
func firstDisturbedFieldID(s []int32) int {
	s = s[:cap(s)]
	for i := range s {
		if s[i] != int32(i%12+1) {
			return i
		}
	}
	return -1
}

//go:norace
func bytesOfInt32s(s []int32) []byte {
	if cap(s) == 0 {
		return nil
	}
	s = s[:cap(s)]
	return unsafe.Slice((*byte)(unsafe.Pointer(&s[0])), len(s)*4)
}

//go:norace
func bytesOfUint64s(s []uint64) []byte {
	if cap(s) == 0 {
		return nil
	}
	s = s[:cap(s)]
	return unsafe.Slice((*byte)(unsafe.Pointer(&s[0])), len(s)*8)
}

func init() {
	// *[]byte buffers of the converters
	simrt.RegisterPoolHook("conv.bufPool", &simrt.PoolHook{
		// worlds that guard the library's growth sites also guard the pool's fresh buffers: a write past
		// the capacity of any output buffer is a fault
		Shape: func(w *simrt.World, x interface{}) {
			if p := x.(*[]byte); w.GuardGrowth && cap(*p) > 0 {
				*p = simrt.MakeBytes(0, cap(*p))
			}
		},
		Poison: poisonBytesPtr, Verify: verifyBytesPtr,
	})
	simrt.RegisterPoolHook("thrift.bpPool", &simrt.PoolHook{
		Poison: func(w *simrt.World, x interface{}) uint64 {
			p := x.(*thrift.BinaryProtocol)
			pat := poisonFor(w)
			fillBytes(p.Buf[:cap(p.Buf)], pat)
			return uint64(pat)<<56 | uint64(cap(p.Buf))
		},
		Verify: func(w *simrt.World, x interface{}, tok uint64) string {
			p := x.(*thrift.BinaryProtocol)
			pat := byte(tok >> 56)
			tok &= 1<<56 - 1
			if uint64(cap(p.Buf)) != tok {
				return fmt.Sprintf("Buf capacity changed %d -> %d after Put", tok, cap(p.Buf))
			}
			if i := firstDisturbed(p.Buf[:cap(p.Buf)], pat); i >= 0 {
				return fmt.Sprintf("Buf[%d] written after Put", i)
			}
			return ""
		},
	})
	simrt.RegisterPoolHook("thrift.bitmapPool", &simrt.PoolHook{
		Poison: func(w *simrt.World, x interface{}) uint64 {
			p := x.(*thrift.RequiresBitmap)
			v := byte(0)
			if w.Tape.Chance(1, 2, "bitmap.poison.ones") {
				v = 0xff
			}
			fillBytes(bytesOfUint64s(*p), v)
			return uint64(v)<<32 | uint64(cap(*p))
		},
		Verify: func(w *simrt.World, x interface{}, tok uint64) string {
			p := x.(*thrift.RequiresBitmap)
			if uint64(cap(*p)) != tok&0xffffffff {
				return fmt.Sprintf("bitmap capacity changed after Put")
			}
			if i := firstDisturbed(bytesOfUint64s(*p), byte(tok>>32)); i >= 0 {
				return fmt.Sprintf("bitmap byte %d written after Put", i)
			}
			return ""
		},
	})
	simrt.RegisterPoolHook("internal/native/types.j2tStackPool", &simrt.PoolHook{
		Shape: func(w *simrt.World, x interface{}) {
			f := x.(*types.J2TStateMachine)
			if knobs.KeyCap >= 0 {
				f.KeyCache = make([]byte, 0, knobs.KeyCap)
			}
			if knobs.FieldCap >= 0 {
				f.FieldCache = make([]int32, 0, knobs.FieldCap)
			}
			if knobs.ReqsCap >= 0 {
				f.ReqsCache = make([]byte, 0, knobs.ReqsCap)
			}
		},
		Poison: func(w *simrt.World, x interface{}) uint64 {
			f := x.(*types.J2TStateMachine)
			fillBytes(f.KeyCache[:cap(f.KeyCache)], poisonByte)
			fillBytes(f.ReqsCache[:cap(f.ReqsCache)], poisonByte)
			// the field cache is poisoned with plausible field ids: if a stale length survives the Put, the
			// next user replays fields that exist instead of ids that are silently skipped as unknown
			fillFieldIDs(f.FieldCache)
			return 0
		},
		Verify: func(w *simrt.World, x interface{}, tok uint64) string {
			f := x.(*types.J2TStateMachine)
			if i := firstDisturbed(f.KeyCache[:cap(f.KeyCache)], poisonByte); i >= 0 {
				return fmt.Sprintf("KeyCache[%d] written after Put", i)
			}
			if i := firstDisturbed(f.ReqsCache[:cap(f.ReqsCache)], poisonByte); i >= 0 {
				return fmt.Sprintf("ReqsCache[%d] written after Put", i)
			}
			if i := firstDisturbedFieldID(f.FieldCache); i >= 0 {
				return fmt.Sprintf("FieldCache[%d] written after Put", i)
			}
			return ""
		},
	})
}

func poisonBytesPtr(w *simrt.World, x interface{}) uint64 {
	p := x.(*[]byte)
	pat := poisonFor(w)
	fillBytes((*p)[:cap(*p)], pat)
	return uint64(pat)<<56 | uint64(cap(*p))
}

func verifyBytesPtr(w *simrt.World, x interface{}, tok uint64) string {
	p := x.(*[]byte)
	pat := byte(tok >> 56)
	tok &= 1<<56 - 1
	if uint64(cap(*p)) != tok {
		return fmt.Sprintf("capacity changed %d -> %d after Put", tok, cap(*p))
	}
	if i := firstDisturbed((*p)[:cap(*p)], pat); i >= 0 {
		return fmt.Sprintf("byte %d written after Put", i)
	}
	return ""
}
