package main

import (
	"bytes"
	"context"
	"fmt"
	"strings"

	"github.com/cloudwego/dynamicgo/conv"
	"github.com/cloudwego/dynamicgo/conv/j2t"
	"github.com/cloudwego/dynamicgo/internal/simrt"
	"github.com/cloudwego/dynamicgo/meta"
	"github.com/cloudwego/dynamicgo/thrift"
)

// parseThrift parses the generated IDL with the real parser and returns the root type descriptor.
func parseThrift(w *W, sch *TSchema, po thrift.Options) *thrift.TypeDescriptor {
	d, _ := parseThriftFn(w, sch, po)
	return d
}

// parseThriftFn also returns the function descriptor (response type with the exception field).
func parseThriftFn(w *W, sch *TSchema, po thrift.Options) (*thrift.TypeDescriptor, *thrift.FunctionDescriptor) {
	svc, err := po.NewDescritorFromContent(context.Background(), "sim.thrift", sch.IDL, sch.Includes, false)
	if err != nil {
		w.Failf("harness-idl", nil, "generated IDL does not parse: %v\n%s", err, sch.IDL)
	}
	fn := svc.Functions()["Call"]
	if fn == nil {
		w.Failf("harness-idl", nil, "no function Call")
	}
	root := fn.Request().Struct().FieldById(1).Type()
	syncAliases(w, sch.Root, root, map[*TStruct]bool{})
	return root, fn
}

// syncAliases cross-checks the member keys the harness believes it declared against what the real
// parser reports (how an IDL literal is unescaped is the parser's business, not this harness').
func syncAliases(w *W, t *TType, d *thrift.TypeDescriptor, seen map[*TStruct]bool) {
	switch t.Kind {
	case tSTRUCT:
		if seen[t.St] {
			return
		}
		seen[t.St] = true
		for _, f := range t.St.Fields {
			fd := d.Struct().FieldById(thrift.FieldID(f.ID))
			if fd == nil {
				w.Failf("harness-idl", nil, "field %d of %s missing in the parsed descriptor", f.ID, t.St.Name)
			}
			if f.Alias != "" && fd.Alias() != f.Alias {
				f.Alias = fd.Alias()
			}
			syncAliases(w, f.T, fd.Type(), seen)
		}
	case tLIST, tSET:
		syncAliases(w, t.Elem, d.Elem(), seen)
	case tMAP:
		syncAliases(w, t.Elem, d.Elem(), seen)
	}
}

// writeOpts is the subset of options the requiredness truth table depends on.
type writeOpts struct {
	WriteRequire, WriteDefault, WriteOptional, DisallowUnknown bool
	SetOptionalBitmap, UseDefaultValue                         bool
	// NoOptionalDefaultRule drops the clause "optional fields are also written whenever they carry a
	// parsed default" - used only to *characterise* a mismatch (known finding F15), never as the oracle.
	NoOptionalDefaultRule bool
	// F43JSConvI16 appends the stray byte the native inlined api.js_conv writes after an i16 value - used only to
	// *characterise* a mismatch (known finding F43), never as the oracle.
	F43JSConvI16 bool
}

type expectErr int

const (
	expOK expectErr = iota
	expMissingRequired
	expUnknownField
)

// expectJ2T is the reference model of JSON->Thrift for a struct-rooted model value: members in
// document order, null omitted, unknown skipped; then unset fields in ascending id order as the
// truth table says. nativeOptionalRule selects the native converter's handling of optional fields
// (written iff WriteOptional) - the only rule exercised by C02 worlds.
// nullTailMarks, when non-nil, receives for every struct whose LAST document member is null the
// offset (in the expected encoding) where its present members end, i.e. where the native code's
// unwind position lies (used only to characterise mismatches for known finding F02).
var nullTailMarks *[]int

// stopMarks receives the offset of every struct STOP byte of the expected output (reset by the caller).
var stopMarks []int

func expectJ2T(b []byte, v *TVal, o writeOpts) ([]byte, expectErr) {
	switch v.T.Kind {
	case tSTRUCT:
		seen := map[int]bool{}
		defer func() {}()
		for _, fv := range v.Fields {
			if fv.F == nil {
				if o.DisallowUnknown {
					return b, expUnknownField
				}
				continue
			}
			if fv.V == nil {
				continue
			}
			seen[fv.F.ID] = true
			b = append(b, fv.F.T.Kind, byte(fv.F.ID>>8), byte(fv.F.ID))
			var e expectErr
			b, e = expectJ2T(b, fv.V, o)
			if e != expOK {
				return b, e
			}
			if o.F43JSConvI16 && fv.F.JSConv && fv.F.T.Kind == tI16 {
				b = append(b, byte(fv.V.I))
			}
		}
		if nullTailMarks != nil {
			if n := len(v.Fields); n > 0 && v.Fields[n-1].F != nil && v.Fields[n-1].V == nil {
				*nullTailMarks = append(*nullTailMarks, len(b))
			}
		}
		// unset fields, ascending id
		ids := make([]int, 0, len(v.T.St.Fields))
		for _, f := range v.T.St.Fields {
			if !seen[f.ID] {
				ids = append(ids, f.ID)
			}
		}
		sortInts(ids)
		for _, id := range ids {
			f := v.T.St.ByID(id)
			tracked := f.Req != reqOptional || o.SetOptionalBitmap
			if !tracked {
				continue
			}
			write := false
			switch f.Req {
			case reqRequired:
				if !o.WriteRequire {
					return b, expMissingRequired
				}
				write = true
			case reqDefault:
				write = o.WriteDefault
			case reqOptional:
				// property C16: "optional fields only when the descriptor was parsed to track optional
				// fields, and then also whenever they carry a parsed default"
				write = o.WriteOptional || (f.Default != nil && o.UseDefaultValue && !o.NoOptionalDefaultRule)
			}
			if !write {
				continue
			}
			b = append(b, f.T.Kind, byte(f.ID>>8), byte(f.ID))
			if f.Default != nil && o.UseDefaultValue {
				b = encodeThrift(b, f.Default)
			} else {
				b = encodeZero(b, f.T)
			}
		}
		stopMarks = append(stopMarks, len(b))
		return append(b, 0), expOK
	case tLIST, tSET:
		b = append(b, v.T.Elem.Kind)
		b = append(b, byte(len(v.List)>>24), byte(len(v.List)>>16), byte(len(v.List)>>8), byte(len(v.List)))
		for _, e := range v.List {
			var er expectErr
			b, er = expectJ2T(b, e, o)
			if er != expOK {
				return b, er
			}
		}
		return b, expOK
	case tMAP:
		b = append(b, v.T.Key.Kind, v.T.Elem.Kind)
		n := len(v.Keys)
		b = append(b, byte(n>>24), byte(n>>16), byte(n>>8), byte(n))
		for i := range v.Keys {
			b = encodeThrift(b, v.Keys[i])
			var er expectErr
			b, er = expectJ2T(b, v.Vals[i], o)
			if er != expOK {
				return b, er
			}
		}
		return b, expOK
	}
	return encodeThrift(b, v), expOK
}

func encodeZero(b []byte, t *TType) []byte {
	switch t.Kind {
	case tBOOL, tBYTE:
		return append(b, 0)
	case tI16:
		return append(b, 0, 0)
	case tI32:
		return append(b, 0, 0, 0, 0)
	case tI64, tDOUBLE:
		return append(b, 0, 0, 0, 0, 0, 0, 0, 0)
	case tSTRING:
		return append(b, 0, 0, 0, 0)
	case tLIST, tSET:
		return append(b, t.Elem.Kind, 0, 0, 0, 0)
	case tMAP:
		return append(b, t.Key.Kind, t.Elem.Kind, 0, 0, 0, 0)
	case tSTRUCT:
		return append(b, 0)
	}
	panic("encodeZero")
}

func sortInts(a []int) {
	for i := 1; i < len(a); i++ {
		for j := i; j > 0 && a[j] < a[j-1]; j-- {
			a[j], a[j-1] = a[j-1], a[j]
		}
	}
}

// j2tEnv is one environment for a JSON->Thrift call.
type j2tEnv struct {
	DoInto   bool
	Delta    int // DoInto: cap = prefix + len(js) + Delta   (Delta<0: cap = 0 / tiny)
	Prefix   int
	OutPlace int
	InPlace  int
}

func (e j2tEnv) String() string {
	if !e.DoInto {
		return fmt.Sprintf("Do in=%s", simrt.PlaceNames[e.InPlace])
	}
	return fmt.Sprintf("DoInto cap=len(js)%+d prefix=%d out=%s in=%s", e.Delta, e.Prefix, simrt.PlaceNames[e.OutPlace], simrt.PlaceNames[e.InPlace])
}

func drawJ2TEnv(w *W, expLen, jsLen int) j2tEnv {
	t := w.T
	var e j2tEnv
	e.DoInto = t.Chance(2, 3, "env.dointo")
	switch t.Intn(6, "env.inplace") {
	case 0, 1, 2:
		e.InPlace = simrt.PlaceHeap
	case 3, 4:
		e.InPlace = simrt.PlaceGuardEnd
	default:
		e.InPlace = simrt.PlaceReadOnly
	}
	if e.DoInto {
		switch t.Intn(8, "env.capclass") {
		case 0:
			e.Delta = -1 // nil / tiny buffer: GuardSlice regrows
		case 1, 2, 3:
			e.Delta = t.Intn(25, "env.delta.small")
		case 4, 5, 6:
			room := expLen - jsLen
			if room < 0 {
				room = 0
			}
			e.Delta = t.Intn(room+9, "env.delta.sweep")
		default:
			e.Delta = 4096 + t.Intn(4096, "env.delta.huge")
		}
		if t.Chance(1, 4, "env.prefix") {
			e.Prefix = 1 + t.Intn(40, "env.prefix.n")
		}
		switch t.Intn(4, "env.outplace") {
		case 0:
			e.OutPlace = simrt.PlaceHeap
		case 1, 2:
			e.OutPlace = simrt.PlaceCanary
		default:
			e.OutPlace = simrt.PlaceGuardEnd
		}
	}
	return e
}

// drawJ2TEnvAt is drawJ2TEnv with one more capacity class: the caller's buffer is full exactly where the
// expected output has a zero byte behind the first len(js) bytes - struct STOP bytes are among them, so the
// buffer runs out right at the end of a (nested) struct, the instant at which the native state machine has
// already released that struct's bitmap.
func drawJ2TEnvAt(w *W, exp []byte, jsLen int, stops []int) j2tEnv {
	e := drawJ2TEnv(w, len(exp), jsLen)
	if e.DoInto && w.T.Chance(1, 4, "env.cap.atstop") {
		var zs []int
		for _, i := range stops { // STOP offsets recorded by the expectJ2T call that produced exp
			if i >= jsLen && i < len(exp) && exp[i] == 0 {
				zs = append(zs, i)
			}
		}
		if len(zs) == 0 {
			for i := jsLen; i < len(exp); i++ {
				if exp[i] == 0 {
					zs = append(zs, i)
				}
			}
		}
		if len(zs) > 0 {
			e.Delta = zs[w.T.Intn(len(zs), "env.cap.atstop.which")] - jsLen
			e.Prefix = 0
			w.Count("cap_at_zero_byte")
		}
	}
	return e
}

// j2tExtraSteps: steps a conversion may legitimately need on top of its input-proportional budget (set by
// worlds whose descriptors are very wide: every unset field costs a few Go calls whatever the input is).
var j2tExtraSteps uint64

type j2tOutcome struct {
	Out      []byte
	Err      error
	Facts    map[string]string
	LenGtCap bool
}

// runJ2T performs one conversion under env and checks the environment-level invariants
// (prefix preserved, canary intact, len<=cap, input unmodified).
func runJ2T(w *W, cv *j2t.BinaryConv, desc *thrift.TypeDescriptor, js []byte, env j2tEnv, ctx context.Context) j2tOutcome {
	in := w.AllocData(js, env.InPlace)
	doc, tailOK := in.B, func() bool { return true }
	if env.InPlace == simrt.PlaceHeap && len(js)%2 == 0 {
		doc, tailOK = withTail(js) // the input is a prefix of a larger buffer of the caller's
	}
	var res j2tOutcome
	// logical-step budget: the re-entry loop between Go and the native state machine passes a yield per
	// round (handleError); a conversion that does not converge is a violation, not a hung worker
	savedLimit := w.World.StepLimit
	w.World.StepLimit = w.World.Steps + uint64(300*len(js)) + 100000 + j2tExtraSteps
	defer func() { w.World.StepLimit = savedLimit }()
	res.Facts = map[string]string{"api": "Do"}
	if !env.DoInto {
		var out []byte
		var err error
		callOn(w, func() { out, err = cv.Do(ctx, desc, doc) })
		res.Out, res.Err = out, err
	} else {
		res.Facts["api"] = "DoInto"
		c := env.Prefix
		if env.Delta >= 0 {
			c = env.Prefix + len(js) + env.Delta
		}
		ob := w.Alloc(c, env.OutPlace)
		buf := ob.B
		for i := 0; i < env.Prefix; i++ {
			buf = append(buf, byte(0xC0+i%16))
		}
		var err error
		callOn(w, func() { err = cv.DoInto(ctx, desc, doc, &buf) })
		res.Err = err
		own := ob.Owns(buf)
		res.Facts["kept_caller_buffer"] = fmt.Sprint(own)
		if len(buf) > cap(buf) {
			w.Failf("len-exceeds-cap", map[string]string{"api": "DoInto", "own": fmt.Sprint(own)},
				"DoInto returned len(buf)=%d > cap(buf)=%d (env %s)", len(buf), cap(buf), env)
		}
		if !ob.CanaryOK() {
			w.Failf("canary", map[string]string{"api": "DoInto"}, "bytes after the caller buffer's capacity were overwritten (env %s, cap %d)", env, c)
		}
		if len(buf) < env.Prefix {
			w.Failf("prefix-lost", nil, "DoInto shrank the buffer below the caller's prefix (env %s)", env)
		}
		for i := 0; i < env.Prefix; i++ {
			if buf[i] != byte(0xC0+i%16) {
				w.Failf("prefix-modified", nil, "DoInto modified the caller's prefix at %d (env %s)", i, env)
			}
		}
		res.Out = buf[env.Prefix:]
	}
	if !tailOK() {
		w.Failf("input-modified", nil, "conversion wrote into the caller's buffer behind the end of its input")
	}
	if !bytes.Equal(in.B, js) || !bytes.Equal(doc, js) {
		w.Failf("input-modified", nil, "conversion modified its input")
	}
	return res
}

func errClass(err error) string {
	if err == nil {
		return "nil"
	}
	if me, ok := err.(meta.Error); ok {
		return me.Code.String()
	}
	s := err.Error()
	if i := strings.IndexByte(s, ':'); i > 0 && i < 40 {
		s = s[:i]
	}
	return "err:" + s
}

func isErrCode(err error, c meta.ErrCode) bool {
	if me, ok := err.(meta.Error); ok {
		return me.Code.Behavior() == c.Behavior()
	}
	return false
}

func drawConvOptsJ2T(w *W) (conv.Options, writeOpts) {
	t := w.T
	var o conv.Options
	var wo writeOpts
	if t.Chance(1, 4, "opt.write.any") {
		o.WriteDefaultField = t.Chance(1, 2, "opt.writedefault")
		o.WriteRequireField = t.Chance(1, 2, "opt.writerequire")
		o.WriteOptionalField = t.Chance(1, 3, "opt.writeoptional")
	}
	o.DisallowUnknownField = t.Chance(1, 6, "opt.disallow")
	wo = writeOpts{WriteRequire: o.WriteRequireField, WriteDefault: o.WriteDefaultField, WriteOptional: o.WriteOptionalField, DisallowUnknown: o.DisallowUnknownField}
	return o, wo
}
