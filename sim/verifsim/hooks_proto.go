package main

import (
	"fmt"

	"github.com/cloudwego/dynamicgo/internal/simrt"
	"github.com/cloudwego/dynamicgo/proto/binary"
)

// Pool hooks of the Protobuf side.
//
//	proto/binary.bpPool      *binary.BinaryProtocol: Buf[0:cap) is what the library relinquished on Put
//	proto/generic.bytesPool  []byte (by value): [0:cap) is relinquished
//	proto/generic.pnsPool, proto/generic.pathNodePool: structured payloads; nothing is invented there,
//	they only ever carry the genuine residue of earlier operations of the same world.
func init() {
	simrt.RegisterPoolHook("proto/binary.bpPool", &simrt.PoolHook{
		// the capacity of a fresh write buffer is an environment knob (default 4096): small ones make the
		// buffer run full at every possible point of a marshal (speculative length prefixes included)
		Shape: func(w *simrt.World, x interface{}) {
			if knobs.PBBufCap >= 0 {
				x.(*binary.BinaryProtocol).Buf = make([]byte, 0, knobs.PBBufCap)
			}
		},
		Poison: func(w *simrt.World, x interface{}) uint64 {
			p := x.(*binary.BinaryProtocol)
			fillBytes(p.Buf[:cap(p.Buf)], poisonByte)
			return uint64(cap(p.Buf))
		},
		Verify: func(w *simrt.World, x interface{}, tok uint64) string {
			p := x.(*binary.BinaryProtocol)
			if uint64(cap(p.Buf)) != tok {
				return fmt.Sprintf("Buf capacity changed %d -> %d after Put", tok, cap(p.Buf))
			}
			if i := firstDisturbed(p.Buf[:cap(p.Buf)], poisonByte); i >= 0 {
				return fmt.Sprintf("Buf[%d] written after Put", i)
			}
			return ""
		},
	})
	simrt.RegisterPoolHook("proto/generic.bytesPool", &simrt.PoolHook{
		Poison: func(w *simrt.World, x interface{}) uint64 {
			b := x.([]byte)
			fillBytes(b[:cap(b)], poisonByte)
			return uint64(cap(b))
		},
		Verify: func(w *simrt.World, x interface{}, tok uint64) string {
			b := x.([]byte)
			if uint64(cap(b)) != tok {
				return fmt.Sprintf("capacity changed %d -> %d after Put", tok, cap(b))
			}
			if i := firstDisturbed(b[:cap(b)], poisonByte); i >= 0 {
				return fmt.Sprintf("byte %d written after Put", i)
			}
			return ""
		},
	})
}
