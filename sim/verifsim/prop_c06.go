package main

import (
	"context"
	"encoding/binary"
	"fmt"
	"runtime"
	"strings"

	"github.com/cloudwego/dynamicgo/conv"
	"github.com/cloudwego/dynamicgo/conv/j2t"
	"github.com/cloudwego/dynamicgo/conv/t2j"
	"github.com/cloudwego/dynamicgo/internal/simrt"
	"github.com/cloudwego/dynamicgo/thrift"
	"github.com/cloudwego/dynamicgo/thrift/generic"
)

func init() { register("C06", runC06) }

// mark is a structural position of a reference-encoded message.
type mark struct {
	Off  int
	Kind byte // 'T' type byte, 'I' field id (2), 'N' container count (4), 'L' string length (4), 'S' struct stop
}

func encodeThriftMarks(b []byte, v *TVal, ms *[]mark) []byte {
	switch v.T.Kind {
	case tSTRING:
		*ms = append(*ms, mark{len(b), 'L'})
		return encodeThrift(b, v)
	case tSTRUCT:
		for _, fv := range v.Fields {
			if fv.F == nil || fv.V == nil {
				continue
			}
			*ms = append(*ms, mark{len(b), 'T'}, mark{len(b) + 1, 'I'})
			b = append(b, fv.F.T.Kind, byte(fv.F.ID>>8), byte(fv.F.ID))
			b = encodeThriftMarks(b, fv.V, ms)
		}
		*ms = append(*ms, mark{len(b), 'S'})
		return append(b, 0)
	case tLIST, tSET:
		*ms = append(*ms, mark{len(b), 'T'}, mark{len(b) + 1, 'N'})
		b = append(b, v.T.Elem.Kind)
		b = binary.BigEndian.AppendUint32(b, uint32(len(v.List)))
		for _, e := range v.List {
			b = encodeThriftMarks(b, e, ms)
		}
		return b
	case tMAP:
		*ms = append(*ms, mark{len(b), 'T'}, mark{len(b) + 1, 'T'}, mark{len(b) + 2, 'N'})
		b = append(b, v.T.Key.Kind, v.T.Elem.Kind)
		b = binary.BigEndian.AppendUint32(b, uint32(len(v.Keys)))
		for i := range v.Keys {
			b = encodeThriftMarks(b, v.Keys[i], ms)
			b = encodeThriftMarks(b, v.Vals[i], ms)
		}
		return b
	}
	return encodeThrift(b, v)
}

var hugeCounts = []uint32{0x7fffffff, 0xffffffff, 0x80000000, 0x7ffffff0, 0x00ffffff, 0x01000000, 0x10000, 0xfffffffe}
var typeSubst = []byte{0, 1, 2, 3, 4, 5, 6, 7, 8, 9, 10, 11, 12, 13, 14, 15, 16, 17, 0x7f, 0x80, 0xfe, 0xff}

// damage applies one structural fault to a copy of msg and describes it.
func damage(w *W, msg []byte, ms []mark) ([]byte, string) {
	t := w.T
	b := append([]byte{}, msg...)
	if len(b) == 0 {
		return b, "empty"
	}
	switch t.Intn(8, "fault.kind") {
	case 0, 1: // truncation at any offset
		cut := t.Intn(len(b), "fault.cut")
		w.Count("fault_truncate")
		return b[:cut], fmt.Sprintf("truncate@%d", cut)
	case 2, 3: // count / length field to a boundary value
		var c []mark
		for _, m := range ms {
			if m.Kind == 'N' || m.Kind == 'L' {
				c = append(c, m)
			}
		}
		if len(c) == 0 {
			return b[:len(b)/2], "truncate-half"
		}
		m := c[t.Intn(len(c), "fault.mark")]
		v := hugeCounts[t.Intn(len(hugeCounts), "fault.count")]
		if t.Chance(1, 3, "fault.count.small") {
			v = binary.BigEndian.Uint32(b[m.Off:]) + uint32(1+t.Intn(3, "fault.count.plus"))
		}
		binary.BigEndian.PutUint32(b[m.Off:], v)
		w.Count("fault_count_or_length")
		return b, fmt.Sprintf("%c@%d=%#x", m.Kind, m.Off, v)
	case 4: // type byte substitution
		var c []mark
		for _, m := range ms {
			if m.Kind == 'T' || m.Kind == 'S' {
				c = append(c, m)
			}
		}
		if len(c) == 0 {
			return b[:len(b)/2], "truncate-half"
		}
		m := c[t.Intn(len(c), "fault.mark")]
		v := typeSubst[t.Intn(len(typeSubst), "fault.type")]
		b[m.Off] = v
		w.Count("fault_type_byte")
		return b, fmt.Sprintf("type@%d=%d", m.Off, v)
	case 5: // nesting beyond any depth limit: N x (list-of-list header) or struct-in-struct
		n := pickInt(t, "fault.depth", 70, 1100, 5000, 66000)
		var nb []byte
		if t.Chance(1, 2, "fault.depth.kind") {
			for i := 0; i < n; i++ {
				nb = append(nb, tLIST, 0, 0, 0, 1)
			}
			nb = append(nb, tI32, 0, 0, 0, 0)
		} else {
			for i := 0; i < n; i++ {
				nb = append(nb, tSTRUCT, 0, 1)
			}
		}
		w.Count("fault_deep_nesting")
		return nb, fmt.Sprintf("nesting x%d", n)
	case 6: // splice: duplicate a sub-range somewhere else
		if len(b) < 4 {
			return b[:len(b)/2], "truncate-half"
		}
		s := t.Intn(len(b)-1, "fault.splice.s")
		e := s + 1 + t.Intn(len(b)-s-1, "fault.splice.e")
		at := t.Intn(len(b), "fault.splice.at")
		nb := append([]byte{}, b[:at]...)
		nb = append(nb, b[s:e]...)
		nb = append(nb, b[at:]...)
		w.Count("fault_splice")
		return nb, fmt.Sprintf("splice[%d:%d]@%d", s, e, at)
	default: // random multi-byte mutation
		n := 1 + t.Intn(4, "fault.rand.n")
		for i := 0; i < n; i++ {
			b[t.Intn(len(b), "fault.rand.off")] = byte(t.Draw(256, "fault.rand.b"))
		}
		w.Count("fault_random_bytes")
		return b, fmt.Sprintf("random x%d", n)
	}
}

var badJSONPieces = []string{`"\u12"`, `"\ud800"`, `"\udc00\ud800"`, `"\x"`, `"abc`, `tru`, `nul`, `-`, `1e`, `1.`, `0x10`, `[`, `{`, `{"a"`, `{"a":`, `[1,`, `]`, `}`, `,`, `:`, "\x00", "\xff\xfe", `1e99999`, `-1e99999`, `123456789012345678901234567890`, `"\u0000"`, `""""`, `{"a":1,}`, `[,]`}

func damageJSON(w *W, js []byte) ([]byte, string) {
	t := w.T
	b := append([]byte{}, js...)
	switch t.Intn(6, "jfault.kind") {
	case 0, 1:
		if len(b) == 0 {
			return b, "empty"
		}
		cut := t.Intn(len(b), "jfault.cut")
		w.Count("jfault_truncate")
		return b[:cut], fmt.Sprintf("truncate@%d", cut)
	case 2:
		p := badJSONPieces[t.Intn(len(badJSONPieces), "jfault.piece")]
		at := t.Intn(len(b)+1, "jfault.at")
		nb := append([]byte{}, b[:at]...)
		nb = append(nb, p...)
		nb = append(nb, b[at:]...)
		w.Count("jfault_insert_piece")
		return nb, fmt.Sprintf("insert %q@%d", p, at)
	case 3:
		n := pickInt(t, "jfault.depth", 70, 1100, 70000, 1<<20)
		c := byte('[')
		if t.Chance(1, 2, "jfault.depth.kind") {
			c = '{'
		}
		nb := make([]byte, n)
		for i := range nb {
			nb[i] = c
		}
		w.Count("jfault_deep_nesting")
		return nb, fmt.Sprintf("%d x %q", n, c)
	case 4:
		if len(b) == 0 {
			return b, "empty"
		}
		n := 1 + t.Intn(4, "jfault.rand.n")
		for i := 0; i < n; i++ {
			b[t.Intn(len(b), "jfault.rand.off")] = byte(t.Draw(256, "jfault.rand.b"))
		}
		w.Count("jfault_random_bytes")
		return b, fmt.Sprintf("random x%d", n)
	default:
		// swap structural characters
		var pos []int
		for i, c := range b {
			switch c {
			case '{', '}', '[', ']', ',', ':', '"':
				pos = append(pos, i)
			}
		}
		if len(pos) == 0 {
			return b[:len(b)/2], "truncate-half"
		}
		at := pos[t.Intn(len(pos), "jfault.struct.at")]
		b[at] = "{}[],:\"\\x"[t.Intn(9, "jfault.struct.c")]
		w.Count("jfault_structural_char")
		return b, fmt.Sprintf("struct-char@%d=%q", at, b[at])
	}
}

type c06 struct {
	w     *W
	rootT *TType
	desc  *thrift.TypeDescriptor
	desc2 *thrift.TypeDescriptor
	fault string
	// facts about the current input (for known-finding predicates)
	lastByte string
	place    string
	// litNearEnd: one of the last 4 bytes is t, f or n (a JSON literal that cannot be complete)
	litNearEnd string
	hasB64     bool
	// widthFactor: output bytes per input byte that writing the unset fields of the widest struct can cost
	widthFactor int
}

// guarded runs one entry point on damaged input under the survival oracle.
func (c *c06) guarded(name string, inLen int, f func()) {
	w := c.w
	w.NextOp(fmt.Sprintf("%s on %s (%d bytes)", name, c.fault, inLen))
	w.opFacts = map[string]string{"entry": name, "fault": faultClass(c.fault), "last_byte": c.lastByte, "in_place": c.place, "literal_near_end": c.litNearEnd, "has_base64": fmt.Sprint(c.hasB64)}
	var before runtime.MemStats
	runtime.ReadMemStats(&before)
	tapeCap0 := cap(w.T.Rec)
	steps0 := w.World.Steps
	savedLimit := w.World.StepLimit
	w.World.StepLimit = steps0 + uint64(400*inLen) + 20000
	func() {
		defer func() {
			if r := recover(); r != nil {
				if _, ok := r.(*Violation); ok {
					panic(r)
				}
				w.World.StepLimit = savedLimit
				v := panicToViolation("C06", r)
				v.Facts = w.opFacts
				v.Detail = fmt.Sprintf("entry point %s, fault %s\n%s", name, c.fault, v.Detail)
				panic(v)
			}
		}()
		f()
	}()
	w.World.StepLimit = savedLimit
	var after runtime.MemStats
	runtime.ReadMemStats(&after)
	alloc := after.TotalAlloc - before.TotalAlloc
	if c1 := cap(w.T.Rec); c1 != tapeCap0 {
		// the simulator's own tape recording grew during the call: not the library's allocation
		if g := uint64(c1) * 8; g < alloc {
			alloc -= g
		} else {
			alloc = 0
		}
	}
	// "a fixed multiple of the input size": 256 bytes per input byte + 1 MiB; entry points that build a tree
	// pay a pre-sized child slice (DefaultNodeSliceCap path nodes, ~1.4 KB) per nesting level, i.e. per 2-3 input
	// bytes in the worst case, hence the larger constant there (count-driven allocations - make(n) with n read
	// from the input - still exceed it by orders of magnitude)
	factor := 256
	if strings.Contains(name, "Load") || strings.Contains(name, "Children") {
		factor = 1024
	}
	// a converter that writes unset fields emits, for every 3-byte struct level of the input, the zero values
	// of all the other fields of that struct: a multiple that is fixed by the schema, not by the input
	factor += c.widthFactor
	if limit := uint64(factor*inLen) + 1<<20; alloc > limit {
		w.Failf("alloc-bomb@"+name, w.opFacts, "entry point %s allocated %d bytes for a %d-byte input (fault %s); budget %d*len+1MiB = %d", name, alloc, inLen, c.fault, factor, limit)
	}
	w.opFacts = nil
	w.Count("calls_" + name)
	w.Sig(faultClass(c.fault) + ">" + name)
}

func faultClass(f string) string {
	for i := 0; i < len(f); i++ {
		if f[i] == '@' || f[i] == ' ' || f[i] == '[' {
			return f[:i]
		}
	}
	return f
}

func runC06(w *W) {
	t := w.T
	resetKnobs()
	conv.DefaultBufferSize = 4096
	if t.Chance(1, 3, "c06.proto") {
		runC06Proto(w) // Protobuf messages and the Protobuf entry points: prop_c06p.go
		return
	}
	if t.Chance(1, 2, "knob.any") {
		// scratch caches of the native JSON state machine: their growth/re-entry paths see damaged input too
		knobs.KeyCap = pickInt(t, "knob.keycap", -1, 0, 1, 8, 64)
		knobs.FieldCap = pickInt(t, "knob.fieldcap", -1, 0, 2)
		knobs.ReqsCap = pickInt(t, "knob.reqscap", -1, 0, 8, 64)
	}
	flavour := drawFlavour(w)
	w.World.PoolFreshPct = pickInt(t, "knob.poolfresh", 20, 0, 100)
	so := tgenOpts{MaxStructs: 1 + t.Intn(3, "sch.structs"), MaxFields: 1 + t.Intn(6, "sch.fields"), MaxDepth: 1 + t.Intn(3, "sch.depth"),
		BigIDs: t.Chance(1, 3, "sch.bigids"), Recursive: t.Chance(1, 3, "sch.rec"), Requiredness: t.Chance(1, 3, "sch.req")}
	// api.js_conv fields under EnableValueMapping: the converters have separate code for them (an inlined mapping in
	// the native JSON parser, annotation.apiJSConv for Thrift->JSON), which sees the damaged inputs too
	so.JSConv = t.Chance(1, 3, "sch.jsconv")
	sch := genSchema(t, so)
	// base64 binaries + JSON->Thrift is the precondition of the open native finding F01 (decode past the output
	// capacity): in such worlds every output buffer ends at an unmapped page and the JSON input does not, so
	// that the overflow is a deterministic, attributable fault instead of a silent corruption of the worker's heap
	hasB64 := false
	for _, st := range sch.Structs {
		for _, f := range st.Fields {
			var walk func(tt *TType)
			walk = func(tt *TType) {
				if tt == nil {
					return
				}
				if tt.Kind == tSTRING && tt.Binary {
					hasB64 = true
				}
				walk(tt.Elem)
				walk(tt.Key)
			}
			walk(f.T)
		}
	}
	w.World.GuardGrowth = hasB64
	c := &c06{w: w, rootT: sch.Root}
	c.desc = parseThrift(w, sch, thrift.Options{})
	c.desc2 = parseThrift(w, sch, thrift.Options{})
	vg := &vgen{t: t, o: vgenOpts{MaxElems: 1 + t.Intn(6, "val.elems"), MaxStr: 1 + sizeClass(t, "val.maxstr", 200), Depth: 1 + t.Intn(4, "val.depth"), PresentPct: pickInt(t, "val.present", 70, 100, 40), NonNegByteKeys: true}}
	val := vg.value(sch.Root, vg.o.Depth)
	var ms []mark
	msg := encodeThriftMarks(nil, val, &ms)
	valueMapping := so.JSConv && t.Chance(2, 3, "opt.vm")
	js := (&jsonStyle{t: t, WS: t.Intn(3, "js.ws"), Esc: t.Intn(3, "js.esc"), Num: t.Intn(2, "js.num"), ValueMapping: valueMapping}).render(val)
	w.Logf("IDL:\n%s\nflavour %s\nmsg %d bytes: %x\njson: %s", sch.IDL, flavour, len(msg), clipb(msg, 1000), clip(js, 300))
	gopts := &generic.Options{UseNativeSkip: t.Chance(1, 2, "opt.nativeskip"), StoreChildrenById: t.Chance(1, 3, "opt.byid"), StoreChildrenByHash: t.Chance(1, 3, "opt.byhash"), DisallowUnknow: t.Chance(1, 4, "opt.du")}
	copts := conv.Options{DisallowUnknownField: gopts.DisallowUnknow, WriteDefaultField: t.Chance(1, 3, "opt.wd"), UseNativeSkip: gopts.UseNativeSkip, EnableValueMapping: valueMapping}
	if valueMapping {
		w.Count("worlds_with_value_mapping")
	}
	tc := t2j.NewBinaryConv(copts)
	jc := j2t.NewBinaryConv(copts)
	ctx := context.Background()
	for _, st := range sch.Structs {
		n, maxID := 0, 0
		for _, f := range st.Fields {
			if copts.WriteDefaultField {
				n += (len(f.Key()) + 24) * 2 // x2: the output buffer doubles
			}
			if f.ID > maxID {
				maxID = f.ID
			}
		}
		// one requires-bitmap (a bit per field id up to the largest) is held per open struct level, and 3 input
		// bytes open a level
		n += (maxID/64 + 1) * 8
		if n > c.widthFactor {
			c.widthFactor = n
		}
	}

	nfaults := 2 + t.Intn(6, "nfaults")
	for k := 0; k < nfaults; k++ {
		if t.Chance(1, 4, "fault.json") {
			bad, how := damageJSON(w, js)
			c.fault = "json:" + how
			place := pickInt(t, "in.place", simrt.PlaceGuardEnd, simrt.PlaceGuardFront, simrt.PlaceHeap, simrt.PlaceReadOnly)
			if hasB64 {
				place = simrt.PlaceHeap
			}
			in := w.AllocData(bad, place)
			c.lastByte, c.place = lastByteClass(bad), simrt.PlaceNames[place]
			c.hasB64 = hasB64
			c.litNearEnd = "false"
			for i := len(bad) - 1; i >= 0 && i >= len(bad)-4; i-- {
				if bad[i] == 't' || bad[i] == 'f' || bad[i] == 'n' {
					c.litNearEnd = "true"
				}
			}
			c.guarded("j2t.Do", len(bad), func() { jc.Do(ctx, c.desc, in.B) })
			if t.Chance(1, 2, "j2t.into") {
				ob := w.Alloc(t.Intn(64, "j2t.cap"), simrt.PlaceGuardEnd)
				c.guarded("j2t.DoInto", len(bad), func() {
					buf := ob.B[:0]
					jc.DoInto(ctx, c.desc, in.B, &buf)
				})
			}
			continue
		}
		bad, how := damage(w, msg, ms)
		// a wide container: thousands of small elements in a list field of the root (well-formed, then damaged like any
		// other message half of the time): what is allocated per element must not grow with the number of elements
		if t.Chance(1, 12, "fault.wide") && c.rootT.Kind == tSTRUCT {
			for _, f := range c.rootT.St.Fields {
				if (f.T.Kind != tLIST && f.T.Kind != tSET) || f.T.Elem.Kind > tI64 {
					continue
				}
				n := pickInt(t, "fault.wide.n", 3000, 1000, 8000, 20000)
				sz := map[byte]int{tBOOL: 1, tBYTE: 1, tDOUBLE: 8, tI16: 2, tI32: 4, tI64: 8}[f.T.Elem.Kind]
				wide := []byte{f.T.Kind, byte(f.ID >> 8), byte(f.ID), f.T.Elem.Kind, byte(n >> 24), byte(n >> 16), byte(n >> 8), byte(n)}
				wide = append(wide, make([]byte, n*sz)...)
				wide = append(wide, 0)
				bad, how = wide, fmt.Sprintf("wide list of %d elements in field %d", n, f.ID)
				if t.Chance(1, 2, "fault.wide.cut") {
					bad = bad[:len(bad)-1-t.Intn(sz+1, "fault.wide.cut.n")]
					how += " (cut)"
				}
				w.Count("fault_wide_list")
				break
			}
		}
		// second-order: random multi-fault mutation of the damaged message
		if t.Chance(1, 4, "fault.second") {
			var h2 string
			bad, h2 = damage(w, bad, nil)
			how += "+" + h2
		}
		c.fault = how
		place := pickInt(t, "in.place", simrt.PlaceGuardEnd, simrt.PlaceGuardFront, simrt.PlaceHeap, simrt.PlaceReadOnly)
		in := w.AllocData(bad, place)
		c.lastByte, c.place, c.litNearEnd = "binary", simrt.PlaceNames[place], "false"
		b := in.B
		w.Logf("fault %s -> %d bytes %x (placed %s)", how, len(b), clipb(b, 200), simrt.PlaceNames[place])
		// a tape-chosen subset of the entry points sees this message
		pick := func(label string) bool { return t.Chance(1, 2, label) }
		if pick("ep.children") {
			c.guarded("Node.Children", len(b), func() {
				var out []generic.PathNode
				generic.NewNode(thrift.Type(c.rootT.Kind), b).Children(&out, true, gopts)
			})
		}
		if pick("ep.load") {
			c.guarded("PathNode.Load+Marshal", len(b), func() {
				pn := generic.PathNode{Node: generic.NewNode(thrift.Type(c.rootT.Kind), b)}
				if pn.Load(t.Chance(1, 2, "ep.load.rec"), gopts) == nil {
					pn.Marshal(gopts)
				}
			})
		}
		if pick("ep.getbypath") {
			c.guarded("Value.GetByPath", len(b), func() {
				v := generic.NewValue(c.desc, b)
				for _, f := range c.rootT.St.Fields {
					// name-addressed as well: that lookup has a search of its own
					if gn := v.GetByPath(generic.NewPathFieldName(f.Name)); !gn.IsError() {
						gn.Raw()
					}
					g := v.GetByPath(generic.NewPathFieldId(thrift.FieldID(f.ID)))
					if !g.IsError() {
						g.Raw()
						switch f.T.Kind {
						case tLIST, tSET:
							v.GetByPath(generic.NewPathFieldId(thrift.FieldID(f.ID)), generic.NewPathIndex(1))
						case tMAP:
							if f.T.Key.Kind == tSTRING {
								v.GetByPath(generic.NewPathFieldId(thrift.FieldID(f.ID)), generic.NewPathStrKey("k"))
							} else {
								v.GetByPath(generic.NewPathFieldId(thrift.FieldID(f.ID)), generic.NewPathIntKey(1))
							}
						}
					}
				}
			})
		}
		if pick("ep.field") && c.rootT.Kind == tSTRUCT {
			// single-field lookups (by id on Node and Value, by name on Value) and the accessor of the field's type:
			// a lookup that does not report the damage must not hand out a node outside the input
			c.guarded("Value.Field+accessor", len(b), func() {
				v := generic.NewValue(c.desc, b)
				// field id 0 (what a failed step of the field iterator reports) whether declared or not
				for _, g := range []generic.Node{v.Node.Field(0), v.Field(0).Node} {
					if !g.IsError() {
						g.Raw()
						g.Int()
					}
				}
				for _, f := range c.rootT.St.Fields {
					for k := 0; k < 3; k++ {
						var g generic.Node
						switch k {
						case 0:
							g = v.Field(thrift.FieldID(f.ID)).Node
						case 1:
							g = v.FieldByName(f.Name).Node
						default:
							g = v.Node.Field(thrift.FieldID(f.ID))
						}
						if g.IsError() {
							continue
						}
						switch f.T.Kind {
						case tBOOL:
							g.Bool()
						case tBYTE, tI16, tI32, tI64:
							g.Int()
						case tDOUBLE:
							g.Float64()
						case tSTRING:
							if f.T.Binary {
								g.Binary()
							} else {
								g.String()
							}
						case tLIST, tSET:
							// elements by index (first, second, a far one) and the accessor of the element type: an
							// announced count is no proof that the elements are there
							g.Len()
							for _, i := range []int{0, 1, 2, 3, 4, 5, 6, 7, 8, 1000} {
								e := g.Index(i)
								if e.IsError() {
									continue
								}
								switch f.T.Elem.Kind {
								case tBOOL:
									e.Bool()
								case tBYTE, tI16, tI32, tI64:
									e.Int()
								case tDOUBLE:
									e.Float64()
								case tSTRING:
									if f.T.Elem.Binary {
										e.Binary()
									} else {
										e.String()
									}
								default:
									e.Raw()
								}
							}
						case tMAP:
							g.Len()
							g.Raw()
						case tSTRUCT:
							g.Field(1)
						}
					}
				}
			})
		}
		if pick("ep.listsuffix") && len(b) > 0 {
			// a suffix of the message taken as a list / set value of its own (at the header of one of its containers, or
			// anywhere): element lookups by index and the accessor of the element type the header announces
			k := t.Intn(len(b), "ep.listsuffix.at")
			var cands []int
			for _, m := range ms {
				if m.Kind == 'N' && m.Off >= 1 && m.Off-1 < len(b) {
					cands = append(cands, m.Off-1)
				}
			}
			if len(cands) > 0 && t.Chance(3, 4, "ep.listsuffix.mark") {
				k = cands[t.Intn(len(cands), "ep.listsuffix.which")]
			}
			sub := b[k:]
			c.guarded("Node(LIST suffix).Index+accessor", len(sub), func() {
				for _, lt := range []thrift.Type{thrift.LIST, thrift.SET} {
					n := generic.NewNode(lt, sub)
					n.Len()
					for _, i := range []int{0, 1, 2, 3, 4, 5, 6, 7, 8, 1000} {
						e := n.Index(i)
						if e.IsError() {
							continue
						}
						switch e.Type() {
						case thrift.BOOL:
							e.Bool()
						case thrift.BYTE, thrift.I16, thrift.I32, thrift.I64:
							e.Int()
						case thrift.DOUBLE:
							e.Float64()
						case thrift.STRING:
							e.String()
						default:
							e.Raw()
						}
					}
				}
			})
		}
		if pick("ep.interface") {
			c.guarded("Node.Interface", len(b), func() {
				generic.NewNode(thrift.Type(c.rootT.Kind), b).Interface(gopts)
			})
		}
		if pick("ep.foreach") {
			c.guarded("Value.Foreach", len(b), func() {
				var walk func(v generic.Value, d int)
				walk = func(v generic.Value, d int) {
					if d > 6 {
						return
					}
					v.Foreach(func(p generic.Path, x generic.Value) bool {
						switch x.Type() {
						case thrift.STRUCT, thrift.LIST, thrift.SET, thrift.MAP:
							walk(x, d+1)
						}
						return true
					}, gopts)
				}
				walk(generic.NewValue(c.desc, b), 0)
			})
		}
		if pick("ep.marshalto") {
			c.guarded("Value.MarshalTo", len(b), func() { generic.NewValue(c.desc, b).MarshalTo(c.desc2, gopts) })
		}
		if pick("ep.t2j") {
			c.guarded("t2j.Do", len(b), func() { tc.Do(ctx, c.desc, b) })
		}
		if pick("ep.t2j.into") {
			// a small caller buffer that ends at an unmapped page: the converter has to grow it (possibly in the
			// middle of a string) and must not write through the old one afterwards
			ob := w.Alloc(t.Intn(64, "t2j.cap"), simrt.PlaceGuardEnd)
			c.guarded("t2j.DoInto", len(b), func() {
				buf := ob.B[:0]
				tc.DoInto(ctx, c.desc, b, &buf)
			})
		}
		if pick("ep.skip") {
			c.guarded("SkipGo", len(b), func() {
				p := thrift.BinaryProtocol{Buf: b}
				p.SkipGo(thrift.Type(c.rootT.Kind), thrift.MaxSkipDepth)
			})
			c.guarded("SkipNative", len(b), func() {
				p := thrift.BinaryProtocol{Buf: b}
				p.SkipNative(thrift.Type(c.rootT.Kind), thrift.MaxSkipDepth)
			})
		}
		if pick("ep.readany") {
			c.guarded("ReadAnyWithDesc", len(b), func() {
				p := thrift.BinaryProtocol{Buf: b}
				p.ReadAnyWithDesc(c.desc, false, t.Chance(1, 2, "ep.readany.copy"), gopts.DisallowUnknow, true)
			})
			c.guarded("ReadAny", len(b), func() {
				p := thrift.BinaryProtocol{Buf: b}
				p.ReadAny(thrift.Type(c.rootT.Kind), false, false)
			})
		}
		if pick("ep.unwrap") {
			c.guarded("UnwrapBinaryMessage", len(b), func() { thrift.UnwrapBinaryMessage(b) })
			if wrapped, err := thrift.WrapBinaryBody(msg, "Call", thrift.CALL, 1, 7); err == nil && len(wrapped) > 0 {
				cut := t.Intn(len(wrapped), "ep.unwrap.cut")
				wb := w.AllocData(wrapped[:cut], simrt.PlaceGuardEnd)
				c.guarded("UnwrapBinaryMessage(truncated envelope)", cut, func() { thrift.UnwrapBinaryMessage(wb.B) })
			}
		}
	}
	if currentTier == "thorough" && len(msg) <= 400 {
		c.sweep(msg, ms, gopts, &tc, ctx)
	}
	w.Sig(fmt.Sprintf("faults%d/%s", nfaults, flavour))
	w.sample = map[string]interface{}{"msg_bytes": len(msg), "faults": nfaults, "last_fault": c.fault}
}

// sweep enumerates, for this world's message, EVERY truncation offset and EVERY structural mark x
// boundary value, and feeds each damaged message to a fixed set of entry points (thorough tier).
func (c *c06) sweep(msg []byte, ms []mark, gopts *generic.Options, tc *t2j.BinaryConv, ctx context.Context) {
	w := c.w
	run := func(bad []byte, how string) {
		c.fault = how
		in := w.AllocData(bad, simrt.PlaceGuardEnd)
		c.lastByte, c.place, c.litNearEnd = "binary", "guard_end", "false"
		b := in.B
		c.guarded("Node.Children", len(b), func() {
			var out []generic.PathNode
			generic.NewNode(thrift.Type(c.rootT.Kind), b).Children(&out, true, gopts)
		})
		c.guarded("t2j.Do", len(b), func() { tc.Do(ctx, c.desc, b) })
		c.guarded("SkipGo", len(b), func() {
			p := thrift.BinaryProtocol{Buf: b}
			p.SkipGo(thrift.Type(c.rootT.Kind), thrift.MaxSkipDepth)
		})
		c.guarded("SkipNative", len(b), func() {
			p := thrift.BinaryProtocol{Buf: b}
			p.SkipNative(thrift.Type(c.rootT.Kind), thrift.MaxSkipDepth)
		})
		c.guarded("Value.MarshalTo", len(b), func() { generic.NewValue(c.desc, b).MarshalTo(c.desc2, gopts) })
		in.Free()
		w.Count("sweep_faults")
	}
	for cut := 0; cut < len(msg); cut++ {
		run(msg[:cut], fmt.Sprintf("truncate@%d", cut))
	}
	for _, m := range ms {
		switch m.Kind {
		case 'N', 'L':
			for _, v := range hugeCounts {
				b := append([]byte{}, msg...)
				binary.BigEndian.PutUint32(b[m.Off:], v)
				run(b, fmt.Sprintf("%c@%d=%#x", m.Kind, m.Off, v))
			}
			for d := uint32(1); d <= 2; d++ {
				b := append([]byte{}, msg...)
				binary.BigEndian.PutUint32(b[m.Off:], binary.BigEndian.Uint32(b[m.Off:])+d)
				run(b, fmt.Sprintf("%c@%d+%d", m.Kind, m.Off, d))
			}
		case 'T', 'S':
			for _, v := range typeSubst {
				if msg[m.Off] == v {
					continue
				}
				b := append([]byte{}, msg...)
				b[m.Off] = v
				run(b, fmt.Sprintf("type@%d=%d", m.Off, v))
			}
		case 'I':
			for _, v := range []uint16{0, 0x7fff, 0x8000, 0xffff} {
				b := append([]byte{}, msg...)
				binary.BigEndian.PutUint16(b[m.Off:], v)
				run(b, fmt.Sprintf("id@%d=%#x", m.Off, v))
			}
		}
	}
	w.Count("sweep_messages")
}
