package main

import (
	"flag"

	"github.com/cloudwego/dynamicgo/internal/native"
)

var flagSimd = flag.String("simd", "tape", "avx2|avx|sse|portable|tape (tape: drawn per world)")

var flavourNames = []string{"avx2", "avx", "sse"}

// drawFlavour selects the SIMD flavour of the simulated node. With -simd=tape it is an environment
// decision on the tape; otherwise the driver fixed it (C18 replays identical tapes per flavour).
func drawFlavour(w *W) string {
	if buildFlavour == "portable" {
		return "portable"
	}
	fl := 0
	switch *flagSimd {
	case "tape":
		fl = w.T.Intn(3, "env.flavour")
	case "avx2":
		fl = 0
	case "avx":
		fl = 1
	case "sse":
		fl = 2
	}
	native.SimUse(fl)
	w.Sig("simd:" + flavourNames[fl])
	w.Count("flavour_" + flavourNames[fl])
	return flavourNames[fl]
}

// warmFlavours loads every SIMD flavour once before any world runs, so that the one-time loader
// path (which passes yields) never lands inside a world: a world must not depend on whether it
// is the first one of its process.
func warmFlavours() {
	for fl := 2; fl >= 0; fl-- {
		native.SimUse(fl)
	}
}
