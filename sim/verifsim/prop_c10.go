package main

import (
	"bytes"
	"fmt"
	"strings"

	"google.golang.org/protobuf/encoding/protowire"

	"github.com/cloudwego/dynamicgo/internal/simrt"
	"github.com/cloudwego/dynamicgo/proto"
	"github.com/cloudwego/dynamicgo/proto/generic"
)

func init() { register("C10", runC10) }

// ---- handles

type c10Handle struct {
	name  string
	v     generic.Value
	model *PMsgVal
}

// c10Switches enable the preconditions of known library defects. Each is drawn rarely so that the
// neighbourhood is explored without tripping over the defect in every world.
type c10Switches struct {
	MapValueResize bool // replace an existing map value by one of another encoded size
	NextIndex      bool // SetByPath/SetMany with index == len (otherwise appends use an index beyond len, as the tests do)
	Index0Unpacked bool // address element 0 of an unpacked (string/bytes/message) list
	ViaList        bool // reach the edited message through an element of a repeated message field
	RecycledDOM    bool // load into a PathNode that comes from the pool or holds an earlier tree
	InsertMapKey   bool // SetByPath of an absent map key
	Emptying       bool // an unset that leaves a nested message (or a packed list) without content
	EmptyMsgs      bool // present nested messages of length 0 in the initial message / set values
	SharedNums     bool // schema with shared field numbers / free recursion (record-run boundary hazard)
	OddKeys        bool // map key kinds sint32/sint64/sfixed32/sfixed64
	PackedFixed    bool // repeated fixed32/fixed64/sfixed*/float/double fields
	SetManyNest    bool // SetMany on a nested message or list (tests do it; root SetMany is always on)
	MsgValues      bool // set / insert whole message values
	Wide           bool // values sized to move an ancestor's length prefix across a varint width
}

// ---- targets

const (
	tgField = iota // the field itself (singular value, or a whole list / map)
	tgElem         // list element
	tgEntry        // map entry (value addressed by key)
)

type c10Step struct {
	f      *PField
	byName bool
	kind   int // tgField: field step; tgElem: +index; tgEntry: +key
	idx    int
	key    *PVal
}

type c10Target struct {
	steps     []c10Step  // leading steps that descend into nested messages
	ancestors []*PMsgVal // nested messages entered by steps (innermost last); the root is not included
	holder    *PMsgVal   // message that owns the leaf field
	f         *PField
	byName    bool
	kind      int
	idx       int
	key       *PVal
	exists    bool
	viaList   bool // the path goes through a list element
	viaMap    bool // the path goes through a map value
}

func (tg *c10Target) viaFacts(facts map[string]string) {
	if tg.viaList {
		facts["via_list"] = "true"
	}
	if tg.viaMap {
		facts["via_map"] = "true"
	}
	for _, s := range tg.steps {
		if s.kind == tgElem && s.idx == 0 {
			facts["via_index0"] = "true"
		}
	}
	if tg.kind == tgElem && tg.exists && tg.idx == 0 && !tg.f.K.packable() {
		facts["index0_unpacked"] = "true"
	}
}

func (tg *c10Target) fv() *PFieldVal { return &tg.holder.F[tg.f.Idx] }

func pathOfField(f *PField, byName bool) generic.Path {
	if byName {
		return generic.NewPathFieldName(f.Name)
	}
	return generic.NewPathFieldId(proto.FieldNumber(f.Num))
}

func pathOfKey(k *PVal) generic.Path {
	if k.K == pkString {
		return generic.NewPathStrKey(string(k.S))
	}
	if k.K.isUnsigned() {
		return generic.NewPathIntKey(int(k.U))
	}
	return generic.NewPathIntKey(int(k.I))
}

func (tg *c10Target) path() []generic.Path {
	var p []generic.Path
	for _, s := range tg.steps {
		p = append(p, pathOfField(s.f, s.byName))
		switch s.kind {
		case tgElem:
			p = append(p, generic.NewPathIndex(s.idx))
		case tgEntry:
			p = append(p, pathOfKey(s.key))
		}
	}
	p = append(p, pathOfField(tg.f, tg.byName))
	switch tg.kind {
	case tgElem:
		p = append(p, generic.NewPathIndex(tg.idx))
	case tgEntry:
		p = append(p, pathOfKey(tg.key))
	}
	return p
}

func keyText(k *PVal) string {
	if k.K == pkString {
		return fmt.Sprintf("%q", clip(k.S, 24))
	}
	if k.K.isUnsigned() {
		return fmt.Sprint(k.U)
	}
	return fmt.Sprint(k.I)
}

func (tg *c10Target) String() string {
	var sb strings.Builder
	name := func(f *PField, byName bool) string {
		if byName {
			return f.Name
		}
		return fmt.Sprintf("#%d", f.Num)
	}
	for _, s := range tg.steps {
		sb.WriteString("/" + name(s.f, s.byName))
		switch s.kind {
		case tgElem:
			fmt.Fprintf(&sb, "[%d]", s.idx)
		case tgEntry:
			fmt.Fprintf(&sb, "{%s}", keyText(s.key))
		}
	}
	sb.WriteString("/" + name(tg.f, tg.byName))
	switch tg.kind {
	case tgElem:
		fmt.Fprintf(&sb, "[%d]", tg.idx)
	case tgEntry:
		fmt.Fprintf(&sb, "{%s}", keyText(tg.key))
	}
	fmt.Fprintf(&sb, " (%s)", tg.f.typeText())
	return sb.String()
}

// shape is a short structural id of the target used in violation classes.
func (tg *c10Target) shape() string {
	s := []string{"field", "elem", "entry"}[tg.kind]
	if tg.f.K == pkMessage {
		s += "-msg"
	}
	if tg.exists {
		return s + "/present"
	}
	return s + "/absent"
}

// descend walks from the root into nested messages. It returns the message reached.
func c10Descend(w *W, h *c10Handle, sw *c10Switches, tg *c10Target, maxDepth int) *PMsgVal {
	t := w.T
	cur := h.model
	for d := 0; d < maxDepth; d++ {
		if !t.Chance(2, 3, "tg.descend") {
			break
		}
		// candidate fields: message-typed and present
		var cands []*PField
		for i, f := range cur.T.Fields {
			if f.K != pkMessage {
				continue
			}
			fv := &cur.F[i]
			switch f.Card {
			case cSingle:
				if fv.Set {
					cands = append(cands, f)
				}
			case cRepeated:
				// element 0 of an unpacked list cannot be addressed (known defect): needs >= 2 elements
				if sw.ViaList && (len(fv.L) > 1 || (len(fv.L) > 0 && sw.Index0Unpacked)) {
					cands = append(cands, f)
				}
			case cMap:
				// any size change below a map value leaves the entry's length prefix stale (known defect)
				if len(fv.MK) > 0 && sw.MapValueResize {
					cands = append(cands, f)
				}
			}
		}
		if len(cands) == 0 {
			break
		}
		f := cands[t.Intn(len(cands), "tg.descend.f")]
		fv := &cur.F[f.Idx]
		st := c10Step{f: f, byName: t.Chance(1, 3, "tg.byname")}
		switch f.Card {
		case cSingle:
			cur = fv.V.M
		case cRepeated:
			st.kind = tgElem
			if sw.Index0Unpacked {
				st.idx = t.Intn(len(fv.L), "tg.descend.idx")
			} else {
				st.idx = 1 + t.Intn(len(fv.L)-1, "tg.descend.idx")
			}
			cur = fv.L[st.idx].M
			tg.viaList = true
		case cMap:
			st.kind = tgEntry
			j := t.Intn(len(fv.MK), "tg.descend.key")
			st.key = fv.MK[j]
			cur = fv.MV[j].M
			tg.viaMap = true
		}
		tg.steps = append(tg.steps, st)
		tg.ancestors = append(tg.ancestors, cur)
	}
	return cur
}

// pickTarget chooses a leaf. wantExisting: 0 any, 1 must exist, 2 must be absent.
func c10PickTarget(w *W, h *c10Handle, sw *c10Switches, wantExisting int, filter func(f *PField) bool) *c10Target {
	t := w.T
	for attempt := 0; attempt < 4; attempt++ {
		tg := &c10Target{}
		tg.holder = c10Descend(w, h, sw, tg, 3)
		var cands []*PField
		for _, f := range tg.holder.T.Fields {
			if filter == nil || filter(f) {
				cands = append(cands, f)
			}
		}
		if len(cands) == 0 {
			continue
		}
		// prefer present fields
		f := cands[t.Intn(len(cands), "tg.f")]
		for k := 0; k < 2; k++ {
			fv := &tg.holder.F[f.Idx]
			if fv.Set || len(fv.L) > 0 || len(fv.MK) > 0 {
				break
			}
			f = cands[t.Intn(len(cands), "tg.f.again")]
		}
		tg.f = f
		tg.byName = t.Chance(1, 3, "tg.byname")
		fv := tg.fv()
		switch f.Card {
		case cSingle:
			tg.kind, tg.exists = tgField, fv.Set
		case cRepeated:
			if t.Chance(1, 6, "tg.wholelist") {
				tg.kind, tg.exists = tgField, len(fv.L) > 0
			} else {
				tg.kind = tgElem
				tg.idx = t.Intn(len(fv.L)+1, "tg.idx")
				if wantExisting == 1 && len(fv.L) > 0 && tg.idx == len(fv.L) {
					tg.idx = len(fv.L) - 1
				}
				tg.exists = tg.idx < len(fv.L)
			}
		case cMap:
			if t.Chance(1, 6, "tg.wholemap") {
				tg.kind, tg.exists = tgField, len(fv.MK) > 0
			} else {
				tg.kind = tgEntry
				if len(fv.MK) > 0 && (wantExisting == 1 || !t.Chance(1, 3, "tg.newkey")) {
					tg.key = fv.MK[t.Intn(len(fv.MK), "tg.key")]
					tg.exists = true
				} else {
					g := &pvgen{t: t, o: pvgenOpts{MaxStr: 24, KeyMaxInt63: true}, nodes: 10, payload: 200}
					tg.key = g.key(f, "tg.newkey.v")
					tg.exists = fv.findKey(tg.key) >= 0
				}
			}
		}
		if (wantExisting == 1 && !tg.exists) || (wantExisting == 2 && tg.exists) {
			continue
		}
		return tg
	}
	return nil
}

// ---- values and nodes

func c10Node(s *PSchema, v *PVal) generic.Node {
	switch v.K {
	case pkInt32:
		return generic.NewNodeInt32(int32(v.I))
	case pkSint32:
		return generic.NewNodeSint32(int32(v.I))
	case pkSfixed32:
		return generic.NewNodeSfixed32(int32(v.I))
	case pkUint32:
		return generic.NewNodeUint32(uint32(v.U))
	case pkFixed32:
		return generic.NewNodeFixed32(uint32(v.U))
	case pkInt64:
		return generic.NewNodeInt64(v.I)
	case pkSint64:
		return generic.NewNodeSint64(v.I)
	case pkSfixed64:
		return generic.NewNodeSfixed64(v.I)
	case pkUint64:
		return generic.NewNodeUint64(v.U)
	case pkFixed64:
		return generic.NewNodeFixed64(v.U)
	case pkBool:
		return generic.NewNodeBool(v.I != 0)
	case pkDouble:
		return generic.NewNodeDouble(v.F)
	case pkFloat:
		return generic.NewNodeFloat(float32(v.F))
	case pkString:
		return generic.NewNodeString(string(v.S))
	case pkBytes:
		return generic.NewNodeBytes(append([]byte{}, v.S...))
	case pkEnum:
		return generic.NewNodeEnum(int32(v.I))
	case pkMessage:
		body := s.refEncode(v.M)
		buf := protowire.AppendVarint(make([]byte, 0, len(body)+5), uint64(len(body)))
		buf = append(buf, body...)
		return generic.NewNode(proto.MESSAGE, buf)
	}
	panic("c10Node")
}

// c10Value generates a new value for field f (element / map value / singular).
func c10Value(w *W, sch *PSchema, sw *c10Switches, f *PField, singular bool, strLen int) *PVal {
	t := w.T
	g := &pvgen{t: t, s: sch, o: pvgenOpts{MaxElems: 2, MaxStr: 40, Depth: 1, PresentPct: 70, EmptyMsgs: sw.EmptyMsgs, KeyMaxInt63: true, NoNegZero: true}, nodes: 12, payload: 400}
	if f.K == pkMessage {
		mv := g.msg(f.Msg, 1)
		g.fixEmptyMsgs(mv, 1)
		if msgEmptyOnWire(mv) && !sw.EmptyMsgs {
			if !g.fillOne(mv) {
				return nil
			}
		}
		return &PVal{K: pkMessage, M: mv}
	}
	if strLen >= 0 && (f.K == pkString || f.K == pkBytes) {
		g.payload = strLen + 8
		g.o.MaxStr = strLen
		v := &PVal{K: f.K}
		if f.K == pkString {
			v.S = g.str(strLen, "set.wide")
		} else {
			v.S = g.bytesVal(strLen, "set.wide")
		}
		if singular && len(v.S) == 0 {
			v.S = []byte("w")
		}
		return v
	}
	v := g.scalar(f.K, f, "set.v")
	if singular && v.isZero() {
		v = nonZero(f)
		if v.isZero() { // enum with only the zero value
			return nil
		}
	}
	return v
}

// mismatchNode returns a node whose type differs from f's element type.
func mismatchNode(f *PField) generic.Node {
	switch f.K {
	case pkString, pkBytes, pkMessage:
		return generic.NewNodeInt64(7)
	}
	return generic.NewNodeString("mismatch")
}

// ---- model edits

func pModelSet(tg *c10Target, v *PVal) {
	fv := tg.fv()
	switch tg.kind {
	case tgField:
		fv.Set, fv.V = true, v
	case tgElem:
		if tg.idx < len(fv.L) {
			fv.L[tg.idx] = v
		} else {
			fv.L = append(fv.L, v)
		}
	case tgEntry:
		if j := fv.findKey(tg.key); j >= 0 {
			fv.MV[j] = v
		} else {
			fv.MK = append(fv.MK, tg.key.clone())
			fv.MV = append(fv.MV, v)
		}
	}
}

func pModelUnset(tg *c10Target) {
	fv := tg.fv()
	switch tg.kind {
	case tgField:
		*fv = PFieldVal{}
	case tgElem:
		if tg.idx < len(fv.L) {
			fv.L = append(fv.L[:tg.idx:tg.idx], fv.L[tg.idx+1:]...)
		}
	case tgEntry:
		if j := fv.findKey(tg.key); j >= 0 {
			fv.MK = append(fv.MK[:j:j], fv.MK[j+1:]...)
			fv.MV = append(fv.MV[:j:j], fv.MV[j+1:]...)
		}
	}
}

// ---- checks

type c10World struct {
	w       *W
	sch     *PSchema
	desc    *proto.TypeDescriptor
	sw      c10Switches
	handles []*c10Handle
	opts    *generic.Options
	pn      *generic.PathNode // PathNode kept across loads (reuse)
	pnUsed  bool
	held    []c10Held
}

// c10Held is a scalar read out of a handle earlier (GetByPath) and kept by the caller: a later
// SetByPath may use it as the new value of another element ("copy field A to field B", "swap"). It
// must still denote the value it had when it was read, whatever edits happened in between.
type c10Held struct {
	node generic.Node
	val  *PVal
	from string
}

// opHold reads an existing scalar and keeps the returned node for later sets.
func (c *c10World) opHold(h *c10Handle) bool {
	w := c.w
	tg := c10PickTarget(w, h, &c.sw, 1, func(f *PField) bool { return f.K != pkMessage && f.K != pkEnum })
	if tg == nil || !tg.exists || (tg.kind == tgField && tg.f.Card != cSingle) || len(c.held) >= 4 {
		return false
	}
	fv := tg.fv()
	var cur *PVal
	switch tg.kind {
	case tgField:
		cur = fv.V
	case tgElem:
		cur = fv.L[tg.idx]
	case tgEntry:
		cur = fv.MV[fv.findKey(tg.key)]
	}
	if cur == nil || cur.isZero() {
		return false
	}
	w.NextOp(fmt.Sprintf("%s.GetByPath %s (kept)", h.name, tg))
	got := h.v.GetByPath(tg.path()...)
	if got.Check() != nil {
		w.Logf("  -> not readable: %v", got.Check())
		return false // reads are not this property's subject
	}
	c.held = append(c.held, c10Held{node: got.Node, val: cur.clone(), from: fmt.Sprintf("%s:%s", h.name, tg)})
	w.Count("held_values")
	return true
}

func (c *c10World) canon(h *c10Handle) []byte {
	b := c.sch.refEncode(h.model)
	cn, _, err := refCanon(c.sch.Root().MD, b)
	if err != nil {
		c.w.Failf("harness-ref", nil, "reference cannot decode its own encoding: %v", err)
	}
	return cn
}

// verify checks every live handle against its model. edited is the handle the step operated on.
func (c *c10World) verify(op string, edited *c10Handle, facts map[string]string) {
	w := c.w
	for _, h := range c.handles {
		if h.v.IsError() {
			w.Failf("handle-error:"+op, facts, "handle %s became an error value after %s: %s", h.name, op, h.v.Error())
		}
		raw := h.v.Raw()
		cn, _, err := refCanon(c.sch.Root().MD, raw)
		kind := "wrong-bytes:"
		if h != edited {
			kind = "fork-dependent:"
		}
		if err != nil {
			if h == edited {
				kind = "reference-rejects:"
			}
			w.Failf(kind+op, facts, "after %s the bytes of handle %s are rejected by the reference implementation: %v\nbytes: %s\nwant:  %s", op, h.name, err, hexClip(raw, 400), hexClip(c.sch.refEncode(h.model), 400))
		}
		want := c.canon(h)
		if !bytes.Equal(cn, want) {
			w.Failf(kind+op, facts, "after %s handle %s does not decode to its model\nbytes:          %s\ndecoded(canon): %s\nmodel(canon):   %s", op, h.name, hexClip(raw, 400), hexClip(cn, 400), hexClip(want, 400))
		}
		w.T.NoteBytes(raw)
	}
}

// dom loads the handle's bytes into a path-node tree and marshals it back.
func (c *c10World) dom(h *c10Handle, facts map[string]string) {
	w, t := c.w, c.w.T
	recurse := !t.Chance(1, 4, "dom.lazy")
	mode := "fresh"
	var pn *generic.PathNode
	switch {
	case c.sw.RecycledDOM && c.pn != nil && t.Chance(1, 2, "dom.reuse"):
		pn, mode = c.pn, "reused"
		w.Count("dom_pathnode_reused")
	case c.sw.RecycledDOM && t.Chance(1, 2, "dom.pooled"):
		pn, mode = generic.NewPathNode(), "pooled"
	default:
		pn = &generic.PathNode{}
	}
	op := fmt.Sprintf("Load(recurse=%v,%s)+Marshal of %s", recurse, mode, h.name)
	w.NextOp(op)
	f2 := map[string]string{"dom": mode, "recurse": boolStr(recurse)}
	for k, v := range facts {
		f2[k] = v
	}
	w.opFacts = f2
	pn.Node = h.v.Node
	if err := pn.Load(recurse, c.opts, c.desc); err != nil {
		w.Failf("load-error", f2, "%s: Load failed on bytes the reference implementation accepts: %v\nbytes: %s", op, err, hexClip(h.v.Raw(), 400))
	}
	out, err := pn.Marshal(c.opts)
	w.opFacts = nil
	if err != nil {
		w.Failf("marshal-error", f2, "%s: Marshal failed: %v\nbytes: %s", op, err, hexClip(h.v.Raw(), 400))
	}
	cn, _, rerr := refCanon(c.sch.Root().MD, out)
	if rerr != nil {
		w.Failf("dom-reference-rejects", f2, "%s: marshalled tree is rejected by the reference implementation: %v\nloaded: %s\nout:    %s", op, rerr, hexClip(h.v.Raw(), 400), hexClip(out, 400))
	}
	if want := c.canon(h); !bytes.Equal(cn, want) {
		w.Failf("dom-roundtrip", f2, "%s: marshalled tree decodes to a different message\nloaded:     %s\nout:        %s\nout(canon): %s\nmodel:      %s", op, hexClip(h.v.Raw(), 400), hexClip(out, 400), hexClip(cn, 400), hexClip(want, 400))
	}
	// a deep copy (CopyTo) of the loaded tree is a tree of its own: another message loaded into the copy must not
	// show in the original
	if len(c.handles) > 1 && t.Chance(1, 4, "dom.copyto") {
		var other *c10Handle
		for _, o := range c.handles {
			if o != h {
				other = o
			}
		}
		w.NextOp(fmt.Sprintf("CopyTo of the tree of %s, Load of %s into the copy", h.name, other.name))
		w.opFacts = f2
		var cp generic.PathNode
		pn.CopyTo(&cp)
		cp.Node = other.v.Node
		if err := cp.Load(recurse, c.opts, c.desc); err != nil {
			w.Failf("load-error", f2, "Load into a copied tree failed: %v", err)
		}
		o2, err2 := cp.Marshal(c.opts)
		o1, err1 := pn.Marshal(c.opts)
		w.opFacts = nil
		if err1 != nil || err2 != nil {
			w.Failf("marshal-error", f2, "Marshal after CopyTo failed: %v / %v", err1, err2)
		}
		for _, x := range []struct {
			b    []byte
			h    *c10Handle
			what string
		}{{o2, other, "copy"}, {o1, h, "original"}} {
			cn, _, rerr := refCanon(c.sch.Root().MD, x.b)
			if rerr != nil || !bytes.Equal(cn, c.canon(x.h)) {
				w.Failf("dom-copy-not-independent", f2, "after CopyTo + Load into the copy, the %s tree marshals to something else than %s's message (%v)\n out: %s", x.what, x.h.name, rerr, hexClip(x.b, 300))
			}
		}
		w.Count("dom_copies")
	}
	w.T.NoteBytes(out)
	w.Count("dom_roundtrips")
	w.Sig("dom:" + mode + "/" + boolStr(recurse))
	if !recurse {
		w.Count("dom_lazy")
	}
	switch mode {
	case "pooled":
		if c.pn == nil && t.Chance(1, 2, "dom.keep") {
			c.pn = pn
		} else {
			generic.FreePathNode(pn)
		}
	case "fresh":
		if c.sw.RecycledDOM && c.pn == nil {
			c.pn = pn
		}
	}
}

func varintWidth(n int) int {
	if n == 0 {
		return 0
	}
	return protowire.SizeVarint(uint64(n))
}

// ancestorSizes returns the reference-encoded size of every nested message on the target's path.
func (c *c10World) ancestorSizes(tg *c10Target) []int {
	out := make([]int, len(tg.ancestors))
	for i, a := range tg.ancestors {
		out[i] = len(c.sch.refEncode(a))
	}
	return out
}

func (c *c10World) countWidths(before, after []int, facts map[string]string) {
	for i := range before {
		a, b := varintWidth(before[i]), varintWidth(after[i])
		if before[i] != 0 && after[i] == 0 {
			c.w.Count("prefix_to_zero")
			c.w.Sig("width:->0")
			facts["prefix_to_zero"] = "true"
		} else if a != b {
			k := fmt.Sprintf("prefix_width_%d_to_%d", a, b)
			c.w.Count(k)
			c.w.Sig(fmt.Sprintf("width:%d->%d", a, b))
			facts["prefix_width_change"] = fmt.Sprintf("%d->%d", a, b)
		}
	}
}

// isShortTailField: the target is the last field on the wire of its holder and its whole record
// (tag + value) is shorter than 3 bytes.
func (c *c10World) isShortTailField(tg *c10Target) bool {
	for i := tg.f.Idx + 1; i < len(tg.holder.F); i++ {
		fv := &tg.holder.F[i]
		if fv.Set || len(fv.L) > 0 || len(fv.MK) > 0 {
			return false
		}
	}
	only := newPMsgVal(tg.holder.T)
	only.F[tg.f.Idx] = tg.holder.F[tg.f.Idx]
	return len(c.sch.refEncode(only)) < 3
}

// emptiesAfterUnset: would removing the target leave its (nested) holder message without content?
func emptiesAfterUnset(tg *c10Target) bool {
	probe := tg.holder.clone()
	ptg := *tg
	ptg.holder = probe
	pModelUnset(&ptg)
	return len(tg.ancestors) > 0 && msgEmptyOnWire(probe)
}

func (c *c10World) baseFacts(h *c10Handle) map[string]string {
	facts := map[string]string{}
	wf := wireFacts(c.sch, h.v.Raw())
	if wf.ListBoundary {
		facts["list_boundary"] = "true"
	}
	if wf.EmptyNested {
		facts["empty_nested"] = "true"
	}
	if wf.PackedFixed {
		facts["packed_fixed"] = "true"
	}
	if wf.OddMapKey != "" {
		facts["odd_map_key"] = wf.OddMapKey
	}
	return facts
}

// goSizeClasses are the allocation sizes of the Go runtime (go1.23) up to 32 KiB.
var goSizeClasses = []int{8, 16, 24, 32, 48, 64, 80, 96, 112, 128, 144, 160, 176, 192, 208, 224, 240, 256, 288, 320, 352, 384, 416, 448, 480, 512, 576, 640, 704, 768, 896, 1024, 1152, 1280, 1408, 1536, 1792, 2048, 2304, 2688, 3072, 3200, 3456, 4096, 4864, 5120, 5376, 6144, 6528, 6784, 6912, 8192, 9472, 9728, 10240, 10880, 12288, 13568, 14336, 16384, 18432, 19072, 20480, 21760, 24576, 27264, 28672, 32768}

func fillsAllocation(n int) bool {
	if n < 16 {
		return true // tiny allocator: the end of the value may coincide with the end of a 16-byte block
	}
	if n > 32768 {
		return n%8192 == 0
	}
	for _, c := range goSizeClasses {
		if c == n {
			return true
		}
	}
	return false
}

// gcGuard suspends GC injection for one inserting operation when the handle's buffer fills its heap
// allocation exactly. Reason (a genuine library defect, reported separately with a standalone repro):
// an insertion at the end of the buffer keeps unsafe.Pointer(base+len) - a pointer *one past* the
// allocation, i.e. into the neighbouring heap slot - alive across allocations (errNotFoundLast in
// getByPath, sp in SetMany). A GC in that window marks the neighbour; if that slot is free the
// runtime dies with "found pointer to free object". Whether the slot is free depends on the
// allocator's state left by earlier worlds of the same worker process, which no tape controls, so
// the crash would not be replayable. The returned func restores the budget.
func (c *c10World) gcGuard(h *c10Handle, inserting bool) func() {
	wd := c.w.World
	if !inserting || wd.GCNum == 0 || wd.GCBudget == 0 || !fillsAllocation(len(h.v.Raw())) {
		return func() {}
	}
	saved := wd.GCBudget
	wd.GCBudget = 0
	c.w.Count("gc_suspended_for_insert_at_allocation_end")
	return func() { wd.GCBudget = saved }
}

// ---- operations

func (c *c10World) opSet(h *c10Handle) bool {
	w, t := c.w, c.w.T
	filter := func(f *PField) bool { return c.sw.MsgValues || f.K != pkMessage }
	if c.sw.Wide && t.Chance(1, 3, "set.wide.prefer") {
		// prefer payload-carrying leaves (their size can be chosen to move an ancestor's prefix)
		filter = func(f *PField) bool { return f.K == pkString || f.K == pkBytes }
	}
	tg := c10PickTarget(w, h, &c.sw, 0, filter)
	if tg == nil {
		return false
	}
	if tg.kind == tgField && tg.f.Card != cSingle {
		// a whole list / map is inserted where the field is absent, with a node fetched (GetByPath) from another
		// message of the same type - root level only
		if tg.exists || len(tg.steps) > 0 || !t.Chance(1, 2, "set.wholecontainer") {
			return false
		}
		return c.opSetWhole(h, tg)
	}
	if tg.kind == tgEntry && !tg.exists && !c.sw.InsertMapKey {
		return false
	}
	if tg.kind == tgElem && tg.exists && tg.idx == 0 && !tg.f.K.packable() && !c.sw.Index0Unpacked {
		if len(tg.fv().L) < 2 {
			return false
		}
		tg.idx = 1 + t.Intn(len(tg.fv().L)-1, "set.idx.not0")
	}
	facts := c.baseFacts(h)
	strLen := -1
	before := c.ancestorSizes(tg)
	if c.sw.Wide && len(before) > 0 && (tg.f.K == pkString || tg.f.K == pkBytes) && t.Chance(1, 2, "set.wide") {
		lvl := len(before) - 1 - t.Intn(len(before), "set.wide.level")
		target := pickInt(t, "set.wide.target", 128, 127, 129, 126, 16384, 16383)
		if target > 1000 && !t.Chance(1, 3, "set.wide.big") {
			target = 128
		}
		strLen = target - before[lvl] - 2 + t.Intn(5, "set.wide.jitter")
		if tg.exists {
			// replacing: the old payload leaves
			fv := tg.fv()
			var old *PVal
			switch tg.kind {
			case tgField:
				old = fv.V
			case tgElem:
				old = fv.L[tg.idx]
			case tgEntry:
				old = fv.MV[fv.findKey(tg.key)]
			}
			strLen += len(old.S) + 2
		}
		if strLen < 0 {
			strLen = 0
		}
		if strLen > 17000 {
			strLen = 17000
		}
	}
	v := c10Value(w, c.sch, &c.sw, tg.f, tg.kind == tgField, strLen)
	if v == nil {
		return false
	}
	node, heldFrom := generic.Node{}, ""
	if strLen < 0 && len(c.held) > 0 && t.Chance(1, 2, "set.useheld") {
		k := t.Intn(len(c.held), "set.held.which")
		if c.held[k].val.K == tg.f.K {
			v, node, heldFrom = c.held[k].val.clone(), c.held[k].node, c.held[k].from
			facts["value_from_earlier_get"] = "true"
			w.Count("set_with_held_value")
		}
	}
	if heldFrom == "" {
		node = c10Node(c.sch, v)
	}
	if tg.kind == tgEntry && tg.exists {
		old := tg.fv().MV[tg.fv().findKey(tg.key)]
		if len(c10Node(c.sch, old).Raw()) != len(c10Node(c.sch, v).Raw()) {
			if !c.sw.MapValueResize {
				return false
			}
			facts["map_value_resize"] = "true"
			w.Count("map_value_resize")
		}
	}
	realLen := len(tg.fv().L)
	if tg.kind == tgElem && !tg.exists {
		if c.sw.NextIndex && t.Chance(1, 2, "set.nextindex") {
			facts["next_index"] = "true"
			w.Count("append_next_index")
		} else {
			tg.idx = pickInt(t, "set.farindex", 1024, realLen+1, realLen+2, 1<<20)
			w.Count("append_far_index")
		}
	}
	shape := "set-" + tg.shape()
	w.Count(fmt.Sprintf("set_depth_%d", len(tg.ancestors)))
	op := fmt.Sprintf("%s.SetByPath %s = %s", h.name, tg, pShowVal(c.sch, v))
	if heldFrom != "" {
		op += " (node read earlier from " + heldFrom + ")"
	}
	w.NextOp(op)
	facts["op"] = shape
	tg.viaFacts(facts)
	w.opFacts = facts
	unguard := c.gcGuard(h, !tg.exists)
	exist, err := h.v.SetByPath(node, tg.path()...)
	unguard()
	w.opFacts = nil
	if err != nil && tg.kind != tgField && !tg.exists && len(tg.fv().L) == 0 && len(tg.fv().MK) == 0 {
		// inserting the first element / entry of a container that is not on the wire at all: the
		// library's tests only ever append to containers that exist; a refusal that leaves the value
		// untouched is accepted here (it is not a wrong result), and checked as such
		w.Count("insert_into_absent_container_refused")
		w.Logf("  -> refused: %v", err)
		c.verify("refused-"+shape, h, facts)
		return true
	}
	if err != nil {
		w.Failf("valid-op-rejected:"+shape, facts, "%s returned an error: %v\nbytes: %s", op, err, hexClip(h.v.Raw(), 400))
	}
	if exist != tg.exists {
		w.Failf("wrong-exist:"+shape, facts, "%s returned exist=%v, the model says %v", op, exist, tg.exists)
	}
	if tg.kind == tgElem && tg.idx > realLen {
		tg.idx = realLen
	}
	pModelSet(tg, v)
	c.countWidths(before, c.ancestorSizes(tg), facts)
	w.Count("op_" + shape)
	w.Sig("op:" + shape)
	c.verify(shape, h, facts)
	return true
}

// opSetWhole inserts a whole repeated / map field that is absent from h.
func (c *c10World) opSetWhole(h *c10Handle, tg *c10Target) bool {
	w, t := c.w, c.w.T
	f := tg.f
	g := &pvgen{t: t, s: c.sch, o: pvgenOpts{MaxElems: 3, MaxStr: 24, Depth: 1, PresentPct: 70, EmptyMsgs: c.sw.EmptyMsgs, KeyMaxInt63: true, NoNegZero: true}, nodes: 12, payload: 300}
	donor := newPMsgVal(tg.holder.T)
	dfv := &donor.F[f.Idx]
	n := 1 + t.Intn(3, "set.whole.n")
	for j := 0; j < n; j++ {
		if f.Card == cMap {
			k := g.key(f, "set.whole.key")
			if dfv.findKey(k) >= 0 {
				continue
			}
			dfv.MK = append(dfv.MK, k)
			dfv.MV = append(dfv.MV, g.elem(f, 1, "set.whole.mv"))
		} else {
			dfv.L = append(dfv.L, g.elem(f, 1, "set.whole.el"))
		}
	}
	g.fixEmptyMsgs(donor, 1)
	src := generic.NewRootValue(c.desc, c.sch.refEncode(donor)).GetByPath(pathOfField(f, false))
	if src.IsError() {
		w.Logf("  whole %s: donor field not readable: %v", f.Name, src.Error())
		return false
	}
	facts := c.baseFacts(h)
	shape := "set-whole-list"
	if f.Card == cMap {
		shape = "set-whole-map"
	}
	facts["op"] = shape
	op := fmt.Sprintf("%s.SetByPath %s = whole container of %d (node fetched from another message)", h.name, tg, n)
	w.NextOp(op)
	w.opFacts = facts
	unguard := c.gcGuard(h, true) // an insertion: the not-found pointer may sit one past the buffer (see gcGuard)
	exist, err := h.v.SetByPath(src.Fork().Node, tg.path()...)
	unguard()
	w.opFacts = nil
	if err != nil {
		w.Failf("valid-op-rejected:"+shape, facts, "%s returned an error: %v", op, err)
	}
	if exist {
		w.Failf("wrong-exist:"+shape, facts, "%s returned exist=true for an absent field", op)
	}
	hfv := tg.fv()
	hfv.L, hfv.MK, hfv.MV = cloneVals(dfv.L), cloneVals(dfv.MK), cloneVals(dfv.MV)
	w.Count("op_" + shape)
	w.Sig("op:" + shape)
	c.verify(shape, h, facts)
	return true
}

func pShowVal(s *PSchema, v *PVal) string {
	switch v.K {
	case pkString, pkBytes:
		return fmt.Sprintf("%s[%d] %q", v.K, len(v.S), clip(v.S, 24))
	case pkMessage:
		return fmt.Sprintf("%s{%s}", v.M.T.Name, hexClip(s.refEncode(v.M), 40))
	case pkDouble, pkFloat:
		return fmt.Sprintf("%s %v", v.K, v.F)
	}
	if v.K.isUnsigned() {
		return fmt.Sprintf("%s %d", v.K, v.U)
	}
	return fmt.Sprintf("%s %d", v.K, v.I)
}

func (c *c10World) opUnset(h *c10Handle) bool {
	w := c.w
	tg := c10PickTarget(w, h, &c.sw, 1, nil)
	if tg == nil {
		return false
	}
	facts := c.baseFacts(h)
	if emptiesAfterUnset(tg) {
		if !c.sw.Emptying {
			return false
		}
		facts["emptying"] = "true"
		w.Count("unset_emptying")
	}
	shape := "unset-" + tg.shape()
	w.Count(fmt.Sprintf("unset_depth_%d", len(tg.ancestors)))
	op := fmt.Sprintf("%s.UnsetByPath %s", h.name, tg)
	w.NextOp(op)
	facts["op"] = shape
	tg.viaFacts(facts)
	before := c.ancestorSizes(tg)
	if n := len(before); n > 0 && before[n-1] >= 16384 && tg.kind == tgField && c.isShortTailField(tg) {
		// precondition of a known defect (findDeleteChild initialises the span start with the message
		// length instead of the message end)
		facts["short_tail_field_of_16k_message"] = "true"
		w.Count("unset_short_tail_field_of_16k_message")
	}
	w.opFacts = facts
	err := h.v.UnsetByPath(tg.path()...)
	w.opFacts = nil
	if err != nil {
		w.Failf("valid-op-rejected:"+shape, facts, "%s returned an error: %v\nbytes: %s", op, err, hexClip(h.v.Raw(), 400))
	}
	pModelUnset(tg)
	c.countWidths(before, c.ancestorSizes(tg), facts)
	w.Sig("op:" + shape)
	w.Count("op_" + shape)
	c.verify(shape, h, facts)
	return true
}

// opSetMany: root fields, fields of a nested message, or elements of a list.
func (c *c10World) opSetMany(h *c10Handle) bool {
	w, t := c.w, c.w.T
	facts := c.baseFacts(h)
	facts["op"] = "setmany"
	w.opFacts = facts // GetByPathWithAddress below is a library call too (a panic must carry the facts)
	form := 0
	if c.sw.SetManyNest {
		form = t.Intn(3, "sm.form")
	}
	scalarSingle := func(f *PField) bool { return f.Card == cSingle && (f.K != pkMessage || c.sw.MsgValues) }
	var pns []generic.PathNode
	var apply []func()
	var desc []string
	var shape string
	var self *generic.Value
	var address []int
	var path2root []generic.Path
	before := []int(nil)
	var anc *c10Target
	inserts := 0
	switch form {
	case 0, 1:
		// message: root (form 0) or a nested message reached through singular fields
		tg := &c10Target{}
		holder := h.model
		shape = "setmany-root"
		if form == 1 {
			holder = c10Descend(w, h, &c.sw, tg, 3)
			if len(tg.steps) == 0 {
				return false
			}
			shape = "setmany-msg"
		}
		var cands []*PField
		for _, f := range holder.T.Fields {
			if scalarSingle(f) {
				cands = append(cands, f)
			}
		}
		if len(cands) == 0 {
			return false
		}
		n := 1 + t.Intn(3, "sm.n")
		used := map[int]bool{}
		for i := 0; i < n; i++ {
			f := cands[t.Intn(len(cands), "sm.f")]
			if used[f.Num] {
				continue
			}
			used[f.Num] = true
			v := c10Value(w, c.sch, &c.sw, f, true, -1)
			if v == nil {
				continue
			}
			pns = append(pns, generic.PathNode{Path: generic.NewPathFieldId(proto.FieldNumber(f.Num)), Node: c10Node(c.sch, v)})
			ftg := &c10Target{holder: holder, f: f, kind: tgField}
			apply = append(apply, func() { pModelSet(ftg, v) })
			state := "insert"
			if holder.F[f.Idx].Set {
				state = "replace"
			} else {
				inserts++
			}
			desc = append(desc, fmt.Sprintf("#%d(%s)=%s", f.Num, state, pShowVal(c.sch, v)))
		}
		if len(pns) == 0 {
			return false
		}
		if form == 0 {
			self, address = &h.v, []int{}
		} else {
			var p []generic.Path
			for _, s := range tg.steps {
				p = append(p, pathOfField(s.f, s.byName))
				switch s.kind {
				case tgElem:
					p = append(p, generic.NewPathIndex(s.idx))
				case tgEntry:
					p = append(p, pathOfKey(s.key))
				}
			}
			tg.viaFacts(facts)
			vv, addr := h.v.GetByPathWithAddress(p...)
			if vv.IsError() {
				w.Failf("valid-op-rejected:getbypath", facts, "GetByPathWithAddress to a present nested message failed: %s", vv.Error())
			}
			self = &vv
			address = append(addr, 0)
			path2root = append(p, generic.NewPathFieldId(1024)) // flag element, as in the library's tests
			anc = tg
			before = c.ancestorSizes(tg)
			tg.viaFacts(facts)
		}
	default:
		// list: replace existing elements and append new ones
		tg := c10PickTarget(w, h, &c.sw, 0, func(f *PField) bool { return f.Card == cRepeated && (f.K != pkMessage || c.sw.MsgValues) })
		if tg == nil || len(tg.fv().L) == 0 {
			return false
		}
		shape = "setmany-list"
		f := tg.f
		fv := tg.fv()
		n := 1 + t.Intn(3, "sm.n")
		used := map[int]bool{}
		nApp := 0
		for i := 0; i < n; i++ {
			idx := t.Intn(len(fv.L)+1, "sm.idx")
			v := c10Value(w, c.sch, &c.sw, f, false, -1)
			if v == nil {
				continue
			}
			if idx < len(fv.L) {
				if used[idx] {
					continue
				}
				used[idx] = true
				pns = append(pns, generic.PathNode{Path: generic.NewPathIndex(idx), Node: c10Node(c.sch, v)})
				etg := &c10Target{holder: tg.holder, f: f, kind: tgElem, idx: idx}
				apply = append(apply, func() { pModelSet(etg, v) })
				desc = append(desc, fmt.Sprintf("[%d]=%s", idx, pShowVal(c.sch, v)))
			} else {
				pns = append(pns, generic.PathNode{Path: generic.NewPathIndex(1024), Node: c10Node(c.sch, v)}) // as in the library's tests
				etg := &c10Target{holder: tg.holder, f: f, kind: tgElem, idx: 1 << 30}
				apply = append(apply, func() { pModelSet(etg, v) })
				desc = append(desc, fmt.Sprintf("[append]=%s", pShowVal(c.sch, v)))
				nApp++
				inserts++
			}
		}
		if len(pns) == 0 {
			return false
		}
		tg.kind = tgField
		p := tg.path()
		tg.viaFacts(facts)
		vv, addr := h.v.GetByPathWithAddress(p...)
		if vv.IsError() {
			w.Failf("valid-op-rejected:getbypath", facts, "GetByPathWithAddress to a present list failed: %s", vv.Error())
		}
		self = &vv
		address = append(addr, 0)
		path2root = append(p, generic.NewPathIndex(1024))
		anc = tg
		before = c.ancestorSizes(tg)
		tg.viaFacts(facts)
		if nApp > 1 {
			facts["multi_append"] = "true"
		}
	}
	if inserts > 0 && w.World.GCNum > 0 && w.World.GCBudget > 0 && fillsAllocation(len(h.v.Raw())) {
		// SetMany parks a copy of its path nodes - including the one-past-the-end pointer of every
		// inserted node - in pnsPool; a later GC of this world would mark the neighbouring heap slot
		// (see gcGuard). Not run in worlds that may still inject a GC.
		w.Count("setmany_insert_skipped_allocation_end")
		return false
	}
	op := fmt.Sprintf("%s.SetMany[%s] {%s}", h.name, shape, strings.Join(desc, ", "))
	w.NextOp(op)
	facts["op"] = shape
	w.opFacts = facts
	unguard := c.gcGuard(h, true)
	err := self.SetMany(pns, c.opts, &h.v, address, path2root...)
	unguard()
	w.opFacts = nil
	if err != nil {
		w.Failf("valid-op-rejected:"+shape, facts, "%s returned an error: %v", op, err)
	}
	for _, f := range apply {
		f()
	}
	if anc != nil {
		c.countWidths(before, c.ancestorSizes(anc), facts)
	}
	w.Sig("op:" + shape)
	w.Count("op_" + shape)
	c.verify(shape, h, facts)
	// the same edit list applied once more (a caller that keeps its []PathNode): every addressed field exists now and
	// is replaced by the value it already has. (Root fields only: a nested value and its address are stale after the first
	// call, and a list append beyond the end appends again.)
	if shape == "setmany-root" && t.Chance(1, 3, "sm.again") {
		op2 := op + " again with the same []PathNode"
		w.NextOp(op2)
		facts["op"] = shape + "-again"
		w.opFacts = facts
		unguard := c.gcGuard(h, true)
		err := self.SetMany(pns, c.opts, &h.v, address, path2root...)
		unguard()
		w.opFacts = nil
		if err != nil {
			w.Failf("valid-op-rejected:"+shape+"-again", facts, "%s returned an error: %v", op2, err)
		}
		w.Count("op_" + shape + "_again")
		c.verify(shape+"-again", h, facts)
	}
	return true
}

// opFailing performs an operation that cannot succeed; the handle must stay equal to its model.
func (c *c10World) opFailing(h *c10Handle) bool {
	w, t := c.w, c.w.T
	facts := c.baseFacts(h)
	kind := t.Intn(4, "fail.kind")
	var op, shape string
	var err error
	// a lookup that ends "not found" at the end of the buffer also yields the one-past-the-end
	// pointer described at gcGuard (UnsetByPath keeps it in parentValue across calls)
	defer c.gcGuard(h, true)()
	switch kind {
	case 0: // type-mismatching replacement of an existing value
		tg := c10PickTarget(w, h, &c.sw, 1, nil)
		if tg == nil || (tg.kind == tgField && tg.f.Card != cSingle) {
			return false
		}
		shape = "fail-type-mismatch"
		op = fmt.Sprintf("%s.SetByPath %s = <node of another type>", h.name, tg)
		w.NextOp(op)
		facts["op"] = shape
		if tg.kind == tgElem && !tg.f.K.packable() {
			// the mismatching node is an int64 (a packable kind) aimed at an unpacked list
			facts["packable_node_on_unpacked_list"] = "true"
		}
		tg.viaFacts(facts)
		w.opFacts = facts
		_, err = h.v.SetByPath(mismatchNode(tg.f), tg.path()...)
	case 1: // a field name the schema does not have
		tg := c10PickTarget(w, h, &c.sw, 0, nil)
		if tg == nil {
			return false
		}
		shape = "fail-unknown-name"
		tg.viaFacts(facts)
		p := tg.path()
		// replace the last field step by an unknown name
		n := len(p) - 1
		if tg.kind != tgField {
			n--
		}
		p = append(p[:n:n], generic.NewPathFieldName("no_such_field"))
		op = fmt.Sprintf("%s.SetByPath %s with the last field replaced by an unknown name", h.name, tg)
		w.NextOp(op)
		facts["op"] = shape
		w.opFacts = facts
		_, err = h.v.SetByPath(generic.NewNodeInt32(1), p...)
	case 2: // through an absent singular message
		tg := &c10Target{}
		holder := c10Descend(w, h, &c.sw, tg, 2)
		var absent *PField
		for i, f := range holder.T.Fields {
			if f.K == pkMessage && f.Card == cSingle && !holder.F[i].Set {
				absent = f
			}
		}
		if absent == nil || len(absent.Msg.Fields) == 0 {
			return false
		}
		inner := absent.Msg.Fields[0]
		tg.holder, tg.f = holder, absent
		tg.viaFacts(facts)
		p := append(tg.path(), generic.NewPathFieldId(proto.FieldNumber(inner.Num)))
		if t.Chance(1, 2, "fail.absent.unset") {
			shape = "fail-unset-through-absent"
			op = fmt.Sprintf("%s.UnsetByPath %s/#%d (parent message absent)", h.name, tg, inner.Num)
			w.NextOp(op)
			facts["op"] = shape
			w.opFacts = facts
			err = h.v.UnsetByPath(p...)
		} else {
			shape = "fail-set-through-absent"
			op = fmt.Sprintf("%s.SetByPath %s/#%d (parent message absent)", h.name, tg, inner.Num)
			w.NextOp(op)
			facts["op"] = shape
			w.opFacts = facts
			_, err = h.v.SetByPath(mismatchNode(inner), p...)
		}
	default: // unset of something that is not there
		tg := c10PickTarget(w, h, &c.sw, 2, nil)
		if tg == nil {
			return false
		}
		shape = "fail-unset-absent"
		tg.viaFacts(facts)
		op = fmt.Sprintf("%s.UnsetByPath %s (absent)", h.name, tg)
		w.NextOp(op)
		facts["op"] = shape
		w.opFacts = facts
		err = h.v.UnsetByPath(tg.path()...)
	}
	w.opFacts = nil
	if err != nil {
		w.Count("failing_op_rejected")
	} else {
		w.Count("failing_op_nil_error")
	}
	w.Logf("  -> err=%v", err)
	w.Sig("op:" + shape)
	w.Count("op_" + shape)
	c.verify(shape, h, facts)
	return true
}

func runC10(w *W) {
	t := w.T
	resetKnobs()
	generic.DefaultNodeSliceCap = 16
	if t.Chance(1, 2, "knob.any") {
		generic.DefaultNodeSliceCap = pickInt(t, "knob.nodeslicecap", 16, 1, 4, 64)
		w.Sig(fmt.Sprintf("slicecap:%d", generic.DefaultNodeSliceCap))
	}
	if t.Chance(1, 2, "knob.pbbuf") {
		knobs.PBBufCap = pickInt(t, "knob.pbbufcap", 0, 1, 16, 64, 127, 128, 129, 200, 256, 1000)
		if t.Chance(1, 3, "knob.pbbufcap.any") {
			knobs.PBBufCap = t.Intn(600, "knob.pbbufcap.n")
		}
		w.Sig(fmt.Sprintf("pbbuf:%d", knobs.PBBufCap/32))
	}
	if t.Chance(1, 3, "knob.gc") {
		w.World.GCNum, w.World.GCDen, w.World.GCBudget = 1, pickInt(t, "knob.gcden", 4, 16, 64), 3
		w.Sig("gc")
	}
	w.World.PoolFreshPct = pickInt(t, "knob.poolfresh", 20, 0, 50, 100)
	w.World.StepLimit = 400000

	c := &c10World{w: w, opts: &generic.Options{}}
	if t.Chance(1, 3, "opt.unimplemented") {
		// switches documented as "not implemented": setting them must not change anything
		c.opts.WriteDefault, c.opts.UseNativeSkip, c.opts.NotScanParentNode = t.Chance(1, 2, "opt.wd"), t.Chance(1, 2, "opt.ns"), t.Chance(1, 2, "opt.nsp")
		c.opts.StoreChildrenById, c.opts.StoreChildrenByHash, c.opts.IterateStructByName = t.Chance(1, 2, "opt.sbi"), t.Chance(1, 2, "opt.sbh"), t.Chance(1, 2, "opt.isn")
		w.Count("worlds_with_unimplemented_options_set")
		w.Logf("generic.Options: %+v", *c.opts)
	}
	sw := &c.sw
	sw.InsertMapKey = t.Chance(1, c10Rare, "sw.insertkey")
	sw.Emptying = t.Chance(1, c10Rare, "sw.emptying")
	sw.EmptyMsgs = t.Chance(1, c10Rare, "sw.emptymsgs")
	sw.SharedNums = t.Chance(1, c10Rare, "sw.sharednums")
	sw.OddKeys = t.Chance(1, c10Rare, "sw.oddkeys")
	sw.MapValueResize = t.Chance(1, c10Rare, "sw.mapvalueresize")
	sw.NextIndex = t.Chance(1, c10Rare, "sw.nextindex")
	sw.Index0Unpacked = t.Chance(1, c10Rare, "sw.index0unpacked")
	sw.ViaList = t.Chance(1, c10Rare, "sw.vialist")
	sw.RecycledDOM = t.Chance(1, c10Rare, "sw.recycleddom")
	sw.PackedFixed = t.Chance(1, c10Rare, "sw.packedfixed")
	sw.SetManyNest = t.Chance(1, 2, "sw.setmanynest")
	sw.MsgValues = t.Chance(1, 2, "sw.msgvalues")
	sw.Wide = t.Chance(1, 2, "sw.wide")

	so := pgenOpts{MaxMsgs: 1 + t.Intn(4, "sch.msgs"), MaxFields: 1 + t.Intn(7, "sch.fields"), BigNums: t.Chance(1, 3, "sch.bignums"),
		Recursive: t.Chance(1, 3, "sch.rec"), Enums: t.Chance(1, 2, "sch.enums"), SharedNumbers: sw.SharedNums, NoPackedFixed: !sw.PackedFixed, MsgChance: 3}
	// key kinds the generic API can address (ReadInt has no fixed32/fixed64; bool is not an int key)
	so.KeyKinds = plainKeyKinds
	if sw.OddKeys {
		so.KeyKinds = []pKind{pkInt32, pkString, pkInt64, pkUint32, pkUint64, pkSint32, pkSint64, pkSfixed32, pkSfixed64}
	}
	c.sch = genPSchema(t, so)
	c.desc = parseProto(w, c.sch)
	w.Logf("schema:\n%s", c.sch.Text)

	vo := pvgenOpts{MaxElems: 1 + t.Intn(5, "val.elems"), MaxStr: 1 + sizeClass(t, "val.maxstr", 300), Depth: 1 + t.Intn(4, "val.depth"),
		PresentPct: pickInt(t, "val.present", 70, 100, 30), EmptyMsgs: sw.EmptyMsgs, KeyMaxInt63: true, NoNegZero: true, MaxNodes: 60, MsgPresentPct: 90}
	mv, _ := genPMessage(t, c.sch, vo)
	ref := c.sch.refEncode(mv)
	place := simrt.PlaceHeap
	if t.Chance(1, 3, "in.place") {
		place = simrt.PlaceGuardEnd
	}
	ib := w.AllocData(ref, place)
	w.Logf("message: %d bytes %s (in=%s)", len(ref), hexClip(ref, 400), simrt.PlaceNames[place])
	w.Logf("switches: %+v", *sw)
	h0 := &c10Handle{name: "h0", v: generic.NewRootValue(c.desc, ib.B), model: mv}
	c.handles = []*c10Handle{h0}
	c.verify("initial", h0, nil)

	// (b) DOM round trip of the unedited message
	c.dom(h0, c.baseFacts(h0))

	nsteps := 3 + t.Intn(23, "nsteps")
	done := 0
	for s := 0; s < nsteps; s++ {
		h := c.handles[t.Intn(len(c.handles), "step.handle")]
		ok := false
		w.opFacts = nil
		switch k := t.Intn(13, "step.kind"); {
		case k <= 3:
			ok = c.opSet(h)
		case k <= 6:
			ok = c.opUnset(h)
		case k <= 8:
			ok = c.opSetMany(h)
		case k == 9:
			ok = c.opFailing(h)
		case k == 10:
			if len(c.handles) < 3 {
				w.NextOp(fmt.Sprintf("%s.Fork", h.name))
				nh := &c10Handle{name: fmt.Sprintf("h%d", len(c.handles)), v: h.v.Fork(), model: h.model.clone()}
				c.handles = append(c.handles, nh)
				w.Count("forks")
				w.Sig("fork")
				c.verify("fork", nh, nil)
				ok = true
			}
		case k == 12:
			ok = c.opHold(h)
		default:
			c.dom(h, c.baseFacts(h))
			ok = true
		}
		if ok {
			done++
		}
	}
	// final DOM round trip of every handle
	for _, h := range c.handles {
		c.dom(h, c.baseFacts(h))
	}
	if !bytes.Equal(ib.B, ref) {
		w.Count("input_buffer_written")
	}
	w.Sig(fmt.Sprintf("handles:%d", len(c.handles)))
	w.sample = map[string]interface{}{"schema_bytes": len(c.sch.Text), "message_bytes": len(ref), "steps": nsteps, "steps_done": done, "handles": len(c.handles)}
}

// c10Rare is the denominator of the defect-precondition switches.
var c10Rare = 16
