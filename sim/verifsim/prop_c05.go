package main

import (
	"bytes"
	"fmt"
	"strings"
	"unsafe"

	"github.com/cloudwego/dynamicgo/internal/simrt"
	"github.com/cloudwego/dynamicgo/thrift"
	"github.com/cloudwego/dynamicgo/thrift/generic"
)

func init() { register("C05", runC05) }

// cmpUnordered: struct members and map entries as sets (no duplicates), lists in order.
func cmpUnordered(path string, got, want *TVal) string {
	if got.T.Kind != want.T.Kind {
		return fmt.Sprintf("%s: kind %d != %d", path, got.T.Kind, want.T.Kind)
	}
	switch want.T.Kind {
	case tSTRUCT:
		var gf, wf []TFieldVal
		for _, f := range got.Fields {
			gf = append(gf, f)
		}
		for _, f := range want.Fields {
			if f.F != nil && f.V != nil {
				wf = append(wf, f)
			}
		}
		if len(gf) != len(wf) {
			return fmt.Sprintf("%s: %d fields, want %d (got ids %v want ids %v)", path, len(gf), len(wf), fieldIDs(gf), fieldIDs(wf))
		}
		for _, w := range wf {
			n := 0
			for _, g := range gf {
				if g.F != nil && g.F.ID == w.F.ID {
					n++
					if d := cmpUnordered(fmt.Sprintf("%s.%d", path, w.F.ID), g.V, w.V); d != "" {
						return d
					}
				}
			}
			if n != 1 {
				return fmt.Sprintf("%s: field %d appears %d times (got ids %v)", path, w.F.ID, n, fieldIDs(gf))
			}
		}
	case tLIST, tSET:
		if len(got.List) != len(want.List) {
			return fmt.Sprintf("%s: %d elements, want %d", path, len(got.List), len(want.List))
		}
		for i := range want.List {
			if d := cmpUnordered(fmt.Sprintf("%s[%d]", path, i), got.List[i], want.List[i]); d != "" {
				return d
			}
		}
	case tMAP:
		if len(got.Keys) != len(want.Keys) {
			return fmt.Sprintf("%s: %d entries, want %d", path, len(got.Keys), len(want.Keys))
		}
		for i, wk := range want.Keys {
			n := 0
			for j, gk := range got.Keys {
				if equalVal(gk, wk) {
					n++
					if d := cmpUnordered(fmt.Sprintf("%s{%s}", path, scalarStr(wk)), got.Vals[j], want.Vals[i]); d != "" {
						return d
					}
				}
			}
			if n != 1 {
				return fmt.Sprintf("%s: key %s appears %d times", path, scalarStr(wk), n)
			}
		}
	default:
		if !equalVal(got, want) {
			return fmt.Sprintf("%s: scalar differs (got %s want %s)", path, scalarStr(got), scalarStr(want))
		}
	}
	return ""
}

type c05 struct {
	w     *W
	opts  *generic.Options
	rec   bool
	facts map[string]string
	// cpReuse is the world's long-lived CopyTo destination; prevKeys are the keys of the previously loaded map
	cpReuse  generic.PathNode
	prevKeys []*TVal
}

// checkTree compares a loaded PathNode tree with the model value: exactly the model's children,
// addressed by the right path, each carrying the exact byte span of its sub-value.
func (c *c05) checkTree(path string, pn *generic.PathNode, v *TVal, deep bool) {
	w := c.w
	isContainer := v.T.Kind == tSTRUCT || v.T.Kind == tLIST || v.T.Kind == tSET || v.T.Kind == tMAP
	if skipSpan := isContainer && c.opts.NotScanParentNode && deep && path != "$"; !skipSpan {
		want := encodeThrift(nil, v)
		if got := pn.Node.Raw(); !bytes.Equal(got, want) {
			w.Failf("load-wrong-span", c.facts, "%s: node bytes differ from the sub-value's encoding\n got: %x\nwant: %x", path, clipb(got, 200), clipb(want, 200))
		}
	}
	if !isContainer {
		return
	}
	// collect non-empty children (holes of sparse storage have a zero Path)
	var kids []*generic.PathNode
	for i := range pn.Next {
		k := &pn.Next[i]
		if k.Path.Type() == 0 && k.Node.IsEmpty() {
			continue
		}
		kids = append(kids, k)
	}
	switch v.T.Kind {
	case tSTRUCT:
		var want []TFieldVal
		for _, fv := range v.Fields {
			if fv.F != nil && fv.V != nil {
				want = append(want, fv)
			}
		}
		if len(kids) != len(want) {
			w.Failf("load-wrong-children", c.facts, "%s: %d children loaded, value has %d fields (want ids %v, got %s)", path, len(kids), len(want), fieldIDs(want), kidsDesc(kids))
		}
		for _, fv := range want {
			var found *generic.PathNode
			for _, k := range kids {
				if k.Path.Type() == generic.PathFieldId && int(k.Path.Id()) == fv.F.ID {
					if found != nil {
						w.Failf("load-duplicate-child", c.facts, "%s: field %d loaded twice", path, fv.F.ID)
					}
					found = k
				}
			}
			if found == nil {
				w.Failf("load-missing-child", c.facts, "%s: field %d not among the loaded children (%s)", path, fv.F.ID, kidsDesc(kids))
			}
			if deep {
				c.checkTree(fmt.Sprintf("%s.%d", path, fv.F.ID), found, fv.V, deep)
			} else {
				c.checkLeaf(fmt.Sprintf("%s.%d", path, fv.F.ID), found, fv.V)
			}
		}
	case tLIST, tSET:
		if len(kids) != len(v.List) {
			w.Failf("load-wrong-children", c.facts, "%s: %d children loaded, list has %d elements", path, len(kids), len(v.List))
		}
		for i, e := range v.List {
			k := kids[i]
			if k.Path.Type() != generic.PathIndex || k.Path.Int() != i {
				w.Failf("load-wrong-path", c.facts, "%s: child %d has path %s", path, i, k.Path.String())
			}
			if deep {
				c.checkTree(fmt.Sprintf("%s[%d]", path, i), k, e, deep)
			} else {
				c.checkLeaf(fmt.Sprintf("%s[%d]", path, i), k, e)
			}
		}
	case tMAP:
		if len(kids) != len(v.Keys) {
			w.Failf("load-wrong-children", c.facts, "%s: %d children loaded, map has %d entries (%s)", path, len(kids), len(v.Keys), kidsDesc(kids))
		}
		for i, key := range v.Keys {
			var found *generic.PathNode
			for _, k := range kids {
				match := false
				switch key.T.Kind {
				case tSTRING:
					match = k.Path.Type() == generic.PathStrKey && k.Path.Str() == string(key.S)
				default:
					match = k.Path.Type() == generic.PathIntKey && int64(k.Path.Int()) == key.I
				}
				if match {
					if found != nil {
						w.Failf("load-duplicate-child", c.facts, "%s: key %s loaded twice", path, scalarStr(key))
					}
					found = k
				}
			}
			if found == nil {
				w.Failf("load-missing-child", c.facts, "%s: key %s not among the loaded children (%s)", path, scalarStr(key), kidsDesc(kids))
			}
			if deep {
				c.checkTree(fmt.Sprintf("%s{%s}", path, scalarStr(key)), found, v.Vals[i], deep)
			} else {
				c.checkLeaf(fmt.Sprintf("%s{%s}", path, scalarStr(key)), found, v.Vals[i])
			}
		}
	}
}

func (c *c05) checkLeaf(path string, pn *generic.PathNode, v *TVal) {
	want := encodeThrift(nil, v)
	if got := pn.Node.Raw(); !bytes.Equal(got, want) {
		c.w.Failf("load-wrong-span", c.facts, "%s: child bytes differ from the sub-value's encoding\n got: %x\nwant: %x", path, clipb(got, 200), clipb(want, 200))
	}
}

func kidsDesc(kids []*generic.PathNode) string {
	s := ""
	for i, k := range kids {
		if i > 12 {
			s += " ..."
			break
		}
		s += " " + k.Path.String()
	}
	return s
}

// nodeMirror has the layout of generic.Node (t, et, kt, v, l).
type nodeMirror struct {
	t, et, kt thrift.Type
	v         unsafe.Pointer
	l         int
}

// danglingChild looks through all child slots of the tree (the whole capacity: the collector scans it all) for a node
// whose data pointer is the address right behind buf.
func danglingChild(pn *generic.PathNode, buf []byte, path string, depth int) string {
	if len(buf) == 0 || depth > 8 {
		return ""
	}
	end := uintptr(unsafe.Pointer(&buf[0])) + uintptr(len(buf))
	next := pn.Next[:cap(pn.Next)]
	for i := range next {
		m := (*nodeMirror)(unsafe.Pointer(&next[i].Node))
		if m.v != nil && uintptr(m.v) == end {
			return fmt.Sprintf("%s.Next[%d]", path, i)
		}
		if r := danglingChild(&next[i], buf, fmt.Sprintf("%s.Next[%d]", path, i), depth+1); r != "" {
			return r
		}
	}
	return ""
}

func runC05(w *W) {
	t := w.T
	resetKnobs()
	generic.DefaultNodeSliceCap = pickInt(t, "knob.nodeslicecap", 16, 1, 4)
	generic.StoreChildrenByIdShreshold = pickInt(t, "knob.byid", 256, 4, 16)
	generic.StoreChildrenByIntHashShreshold = pickInt(t, "knob.byhash", 16, 2, 4)
	defer func() {
		generic.DefaultNodeSliceCap = 16
		generic.StoreChildrenByIdShreshold = 256
		generic.StoreChildrenByIntHashShreshold = 16
	}()
	if t.Chance(1, 3, "knob.gc") {
		w.World.GCNum, w.World.GCDen, w.World.GCBudget = 1, pickInt(t, "knob.gcden", 16, 64, 256), 3
	}
	w.World.PoolFreshPct = pickInt(t, "knob.poolfresh", 20, 0, 100)
	w.World.HashSeed = t.Draw(1<<32, "knob.hashseed") // which keys collide is an environment decision
	so := tgenOpts{MaxStructs: 1 + t.Intn(3, "sch.structs"), MaxFields: 2 + t.Intn(8, "sch.fields"), MaxDepth: 1 + t.Intn(3, "sch.depth"),
		BigIDs: t.Chance(1, 2, "sch.bigids"), ManyFields: t.Chance(1, 6, "sch.wide"), Recursive: t.Chance(1, 4, "sch.rec")}
	so.ZeroID = t.Chance(1, 3, "sch.zeroid")
	sch := genSchema(t, so)
	opts := &generic.Options{StoreChildrenById: t.Chance(1, 2, "opt.byid"), StoreChildrenByHash: t.Chance(1, 2, "opt.byhash"),
		NotScanParentNode: t.Chance(1, 4, "opt.notscan"), UseNativeSkip: t.Chance(1, 2, "opt.nativeskip")}
	rec := t.Chance(2, 3, "opt.recurse")
	c := &c05{w: w, opts: opts, rec: rec}
	c.facts = map[string]string{"by_id": fmt.Sprint(opts.StoreChildrenById), "by_hash": fmt.Sprint(opts.StoreChildrenByHash), "recurse": fmt.Sprint(rec), "reload": "false"}
	w.Logf("IDL:\n%s\noptions %+v recurse=%v thresholds id=%d hash=%d slicecap=%d", sch.IDL, *opts, rec, generic.StoreChildrenByIdShreshold, generic.StoreChildrenByIntHashShreshold, generic.DefaultNodeSliceCap)
	w.Sig(fmt.Sprintf("id%v/hash%v/rec%v/ns%v/th%d-%d", opts.StoreChildrenById, opts.StoreChildrenByHash, rec, opts.NotScanParentNode, generic.StoreChildrenByIdShreshold, generic.StoreChildrenByIntHashShreshold))

	vg := &vgen{t: t, o: vgenOpts{MaxElems: 1 + sizeClass(t, "val.elems", 40), MaxStr: 1 + sizeClass(t, "val.maxstr", 100), Depth: 2 + t.Intn(3, "val.depth"), PresentPct: pickInt(t, "val.present", 70, 100, 40), NonNegByteKeys: true}}
	// root: the struct or one of its container members
	rootT := sch.Root
	if t.Chance(1, 2, "root.member") {
		var cands []*TField
		for _, f := range sch.Root.St.Fields {
			if f.T.Kind == tLIST || f.T.Kind == tMAP || f.T.Kind == tSET || f.T.Kind == tSTRUCT {
				cands = append(cands, f)
			}
		}
		if len(cands) > 0 {
			rootT = cands[t.Intn(len(cands), "root.which")].T
		}
	}

	var tree *generic.PathNode
	nloads := 1 + t.Intn(4, "nloads")
	for li := 0; li < nloads; li++ {
		vg.o.nodes = 0
		val := vg.value(rootT, vg.o.Depth)
		raw := encodeThrift(nil, val)
		// choose where the tree object comes from
		how := "fresh"
		if tree == nil || t.Chance(1, 3, "tree.new") {
			if tree != nil && t.Chance(1, 2, "tree.free") {
				generic.FreePathNode(tree)
				how = "freed+pool"
			}
			if how == "freed+pool" || t.Chance(1, 2, "tree.pool") {
				tree = generic.NewPathNode()
				if how == "fresh" {
					how = "pool"
				}
			} else {
				tree = &generic.PathNode{}
			}
		} else {
			switch t.Intn(3, "tree.reset") {
			case 0:
				how = "reuse"
			case 1:
				tree.ResetValue()
				how = "reuse+ResetValue"
			default:
				tree.ResetAll()
				how = "reuse+ResetAll"
			}
			c.facts["reload"] = "true"
			w.Count("tree_reloaded")
		}
		// a node that was never loaded is the carrier of a ready-made value: it marshals as that value, whatever the
		// object held before it went through the pool
		if (how == "pool" || how == "freed+pool") && t.Chance(1, 2, "tree.carrier") {
			vg.o.nodes = 0
			cv := vg.value(rootT, vg.o.Depth)
			craw := encodeThrift(nil, cv)
			tree.Node = generic.NewNode(thrift.Type(rootT.Kind), craw)
			w.NextOp(fmt.Sprintf("Marshal of an unloaded node from the pool (%s) carrying %d bytes", how, len(craw)))
			w.opFacts = c.facts
			out, err := tree.Marshal(opts)
			w.opFacts = nil
			if err != nil {
				w.Failf("marshal-failed", c.facts, "Marshal of an unloaded node failed: %v", err)
			}
			if !bytes.Equal(out, craw) {
				w.Failf("carrier-wrong-bytes", c.facts, "an unloaded node taken from the pool (%s) marshals to %x, it carries %x", how, clipb(out, 200), clipb(craw, 200))
			}
			w.Count("unloaded_carrier_marshalled")
		}
		// a failed load into the tree that is about to be reused: whatever it left behind must not show afterwards
		if strings.HasPrefix(how, "reuse") && how != "reuse+ResetAll" && t.Chance(1, 3, "tree.failedload") {
			vg.o.nodes = 0
			bv := vg.value(rootT, vg.o.Depth)
			braw := encodeThrift(nil, bv)
			if len(braw) > 2 {
				cut := 1 + t.Intn(len(braw)-1, "tree.failedload.cut")
				// the input has one spare byte behind it inside its own allocation: the address "one past the input"
				// then belongs to this buffer alone, so a stale slot that points at the start of some other heap
				// object (e.g. the 8-byte value of an earlier SetField) cannot be taken for a dangling one
				hb := make([]byte, cut+1)
				copy(hb, braw[:cut])
				binB := hb[:cut:cut]
				tree.Node = generic.NewNode(thrift.Type(rootT.Kind), binB)
				w.NextOp(fmt.Sprintf("Load of a truncated value (%d of %d bytes) into the tree that is reused next", cut, len(braw)))
				w.opFacts = c.facts
				err := tree.Load(rec, opts)
				w.opFacts = nil
				if err != nil {
					w.Count("failed_load_before_reuse")
					// the tree the caller keeps must not hold a pointer to the byte behind the input: the garbage
					// collector takes it for a pointer into the neighbouring object ("found pointer to free object")
					if where := danglingChild(tree, binB, "$", 0); where != "" {
						w.Failf("dangling-pointer", c.facts, "after the failed Load the child slot %s points one past the end of the %d-byte input", where, cut)
					}
				}
				switch how {
				case "reuse+ResetValue":
					tree.ResetValue()
				}
			}
		}
		in := w.AllocData(raw, pickInt(t, "in.place", simrt.PlaceHeap, simrt.PlaceGuardEnd, simrt.PlaceReadOnly))
		tree.Node = generic.NewNode(thrift.Type(rootT.Kind), in.B)
		w.Sig(fmt.Sprintf("load:%s/k%d/n%d", how, rootT.Kind, sizeBucket(len(raw))))
		w.NextOp(fmt.Sprintf("load %d (%s): %s, %d bytes: %x", li, how, typeName(rootT), len(raw), clipb(raw, 200)))
		w.opFacts = c.facts
		if err := tree.Load(rec, opts); err != nil {
			w.Failf("load-failed", c.facts, "Load of a well-formed value failed: %v", err)
		}
		w.opFacts = nil
		c.checkTree("$", tree, val, rec)
		w.Count("loads")

		// marshal of the unedited tree
		model := cloneVal(val)
		c.marshalAndCheck(tree, model, raw, !opts.StoreChildrenById && !opts.StoreChildrenByHash, "unedited")

		// a deep copy (CopyTo) is a tree of its own as well: another value loaded into the copy must not show in the original
		if t.Chance(1, 5, "tree.copyto") {
			w.NextOp("PathNode.CopyTo + Load of another value into the copy")
			// the destination is a fresh node, or the world's long-lived one (which held other copies before)
			cpp := &generic.PathNode{}
			if t.Chance(1, 2, "tree.copyto.reuse") {
				cpp = &c.cpReuse
				w.Count("tree_copy_into_reused_destination")
			}
			tree.CopyTo(cpp)
			// the copy answers lookups like the original: in particular not with what the destination held before
			c.checkTree("$copy", cpp, val, rec)
			if rootT.Kind == tMAP {
				for i, k := range c.prevKeys {
					if i >= 8 {
						break
					}
					var step pstep
					var got *generic.PathNode
					if k.T.Kind == tSTRING {
						step = pstep{Kind: 2, SKey: string(k.S)}
						got = cpp.GetByStr(step.SKey, opts)
					} else {
						step = pstep{Kind: 3, IKey: k.I}
						got = cpp.GetByInt(int(k.I), opts)
					}
					want, _, _ := childAt(val, step)
					c.checkLookup("copy: Get "+step.String(), got, want)
				}
			}
			if cpp == &c.cpReuse && t.Chance(1, 2, "tree.copyto.keep") {
				// the copy is marshalled and kept as it is: the next copy lands on what this one left
				c.marshalAndCheck(cpp, cloneVal(model), nil, false, "copy (kept)")
				w.Count("tree_copies")
				goto copied
			}
			{
				cp := *cpp
				vg.o.nodes = 0
				val2 := vg.value(rootT, vg.o.Depth)
				raw2 := encodeThrift(nil, val2)
				in2 := w.AllocData(raw2, simrt.PlaceHeap)
				cp.Node = generic.NewNode(thrift.Type(rootT.Kind), in2.B)
				w.opFacts = c.facts
				if err := cp.Load(rec, opts); err != nil {
					w.Failf("load-failed", c.facts, "Load of a well-formed value into a copied tree failed: %v", err)
				}
				w.opFacts = nil
				c.marshalAndCheck(&cp, cloneVal(val2), nil, false, "copy")
				c.marshalAndCheck(tree, model, nil, false, "original-after-copy")
				w.Count("tree_copies")
			}
		}
	copied:
		// a fork of the tree is a tree of its own: edits of either must not show in the other
		var fork *generic.PathNode
		var forkModel *TVal
		if t.Chance(1, 4, "tree.fork") {
			w.NextOp("PathNode.Fork")
			f := tree.Fork()
			fork, forkModel = &f, cloneVal(model)
			w.Count("tree_forks")
		}
		// lookups + edits on the root container
		nedit := t.Intn(6, "nedits")
		for e := 0; e < nedit; e++ {
			if fork != nil && t.Chance(1, 3, "edit.onfork") {
				c.editRoot(fork, forkModel, vg)
			} else {
				c.editRoot(tree, model, vg)
			}
		}
		if nedit > 0 {
			c.marshalAndCheck(tree, model, nil, false, "edited")
		}
		// a fork taken after the edits (children that were replaced or reloaded keep spare capacity), then the same
		// container child is loaded in both trees and edited in the fork only: the original must not see it
		if model.T.Kind == tSTRUCT && !c.opts.NotScanParentNode && t.Chance(1, 3, "nested.use") {
			c.nestedForkEdit(tree, model, vg)
		}
		if fork != nil {
			c.marshalAndCheck(fork, forkModel, nil, false, "fork")
		}
		if !bytes.Equal(in.B, raw) {
			w.Failf("input-modified", c.facts, "Load/Marshal/edits modified the loaded buffer")
		}
		if val.T.Kind == tMAP {
			c.prevKeys = append(c.prevKeys[:0], val.Keys...)
		}
	}
	w.sample = map[string]interface{}{"root": typeName(rootT), "loads": nloads, "options": fmt.Sprintf("%+v", *opts), "recurse": rec}
}

func (c *c05) nestedForkEdit(tree *generic.PathNode, model *TVal, vg *vgen) {
	w, t := c.w, c.w.T
	var cands []*TField
	for _, fv := range model.Fields {
		if fv.F != nil && fv.V != nil {
			switch fv.F.T.Kind {
			case tSTRUCT, tLIST, tSET, tMAP:
				cands = append(cands, fv.F)
			}
		}
	}
	if len(cands) == 0 {
		return
	}
	f := cands[t.Intn(len(cands), "nested.field")]
	w.NextOp(fmt.Sprintf("PathNode.Fork after the edits, Field(%d) loaded in both trees, edits below it in the fork", f.ID))
	fk := tree.Fork()
	fkModel := cloneVal(model)
	w.opFacts = c.facts
	tn, fn := tree.Field(thrift.FieldID(f.ID), c.opts), fk.Field(thrift.FieldID(f.ID), c.opts)
	w.opFacts = nil
	if tn == nil || fn == nil || tn.IsError() || fn.IsError() || len(tn.Node.Raw()) == 0 || len(fn.Node.Raw()) == 0 {
		return
	}
	for _, n := range []*generic.PathNode{tn, fn} {
		if len(n.Next) == 0 {
			w.opFacts = c.facts
			err := n.Load(false, c.opts)
			w.opFacts = nil
			if err != nil {
				w.Failf("load-failed", c.facts, "Load(false) of the well-formed child Field(%d) failed: %v", f.ID, err)
			}
		}
	}
	sub, _, _ := childAt(fkModel, pstep{Kind: 0, ID: f.ID})
	if sub == nil {
		return
	}
	for e, n := 0, 1+t.Intn(3, "nested.nedits"); e < n; e++ {
		c.editRoot(fn, sub, vg)
	}
	w.Count("nested_fork_edits")
	c.marshalAndCheck(&fk, fkModel, nil, false, "fork edited below a child")
	c.marshalAndCheck(tree, model, nil, false, "original after its fork was edited below a child")
}

func (c *c05) marshalAndCheck(tree *generic.PathNode, model *TVal, raw []byte, wantIdentical bool, what string) {
	w, t := c.w, c.w.T
	var out []byte
	var err error
	w.NextOp("Marshal " + what)
	w.opFacts = c.facts
	if t.Chance(1, 2, "marshal.into") {
		pre := t.Intn(8, "marshal.prefix")
		ob := w.Alloc(pre+t.Intn(64, "marshal.cap"), simrt.PlaceCanary)
		buf := ob.B
		for i := 0; i < pre; i++ {
			buf = append(buf, 0xEE)
		}
		err = tree.MarshalIntoBuffer(&buf, c.opts)
		if !ob.CanaryOK() {
			w.Failf("canary", c.facts, "MarshalIntoBuffer wrote past the buffer's capacity")
		}
		for i := 0; i < pre && i < len(buf); i++ {
			if buf[i] != 0xEE {
				w.Failf("prefix-modified", c.facts, "MarshalIntoBuffer modified the caller's prefix")
			}
		}
		if len(buf) >= pre {
			out = buf[pre:]
		}
	} else {
		out, err = tree.Marshal(c.opts)
	}
	w.opFacts = nil
	if err != nil {
		w.Failf("marshal-failed", c.facts, "Marshal (%s) failed: %v", what, err)
	}
	w.T.NoteBytes(out)
	got, n, derr := decodeThrift(out, model.T, 0)
	if derr != nil || n != len(out) {
		w.Failf("marshal-not-wellformed", c.facts, "Marshal (%s) output does not decode (%v; %d of %d bytes): %x", what, derr, n, len(out), clipb(out, 300))
	}
	if d := cmpUnordered("$", got, model); d != "" {
		w.Failf("marshal-wrong-value", c.facts, "Marshal (%s) output differs from the model: %s\nout: %x", what, d, clipb(out, 300))
	}
	if wantIdentical && raw != nil && !bytes.Equal(out, raw) {
		w.Failf("marshal-not-identical", c.facts, "Marshal of an unedited tree under default options is not byte-identical\n got: %x\nwant: %x", clipb(out, 300), clipb(raw, 300))
	}
	w.Count("marshal_" + what)
}

// editRoot performs one lookup or edit on the root container and mirrors it in the model.
func (c *c05) editRoot(tree *generic.PathNode, model *TVal, vg *vgen) {
	w, t := c.w, c.w.T
	mkNode := func(v *TVal) generic.Node { return libNode(t, v) }
	switch model.T.Kind {
	case tSTRUCT:
		fs := model.T.St.Fields
		f := fs[t.Intn(len(fs), "edit.field")]
		cur, idx, _ := childAt(model, pstep{Kind: 0, ID: f.ID})
		switch t.Intn(4, "edit.kind") {
		case 3: // undo: a grandchild is cleared, then the child's original node is stored back - the child is as before
			if cur == nil || c.opts.NotScanParentNode {
				return
			}
			got := tree.Field(thrift.FieldID(f.ID), c.opts)
			if got == nil || got.IsError() || len(got.Next) == 0 || len(got.Node.Raw()) == 0 {
				return
			}
			orig := got.Node
			k := t.Intn(len(got.Next), "edit.undo.grandchild")
			w.NextOp(fmt.Sprintf("clear grandchild %d of Field(%d), then SetField(%d, <its original node>)", k, f.ID, f.ID))
			got.Next[k].Node = generic.Node{}
			got.Next[k].Next = got.Next[k].Next[:0]
			w.opFacts = c.facts
			exist, err := tree.SetField(thrift.FieldID(f.ID), orig, c.opts)
			w.opFacts = nil
			if err != nil || !exist {
				w.Failf("setfield-failed", c.facts, "SetField(%d) with the child's own original node: exist=%v err=%v", f.ID, exist, err)
			}
			w.Count("edit_undo_by_original_node")
		case 0: // lookup
			w.NextOp(fmt.Sprintf("Field(%d)", f.ID))
			w.opFacts = c.facts
			got := tree.Field(thrift.FieldID(f.ID), c.opts)
			w.opFacts = nil
			c.checkLookup(fmt.Sprintf("Field(%d)", f.ID), got, cur)
		case 1: // set
			nv := vg.value(f.T, 1)
			w.NextOp(fmt.Sprintf("SetField(%d)", f.ID))
			w.opFacts = c.facts
			exist, err := tree.SetField(thrift.FieldID(f.ID), mkNode(nv), c.opts)
			w.opFacts = nil
			if err != nil {
				w.Failf("setfield-failed", c.facts, "SetField(%d) failed: %v", f.ID, err)
			}
			if exist != (idx >= 0) {
				w.Failf("exist-flag", c.facts, "SetField(%d) reported exist=%v, model says %v", f.ID, exist, idx >= 0)
			}
			modelSet(model, []pstep{{Kind: 0, ID: f.ID}}, nv)
			w.Count("edit_setfield")
			got := tree.Field(thrift.FieldID(f.ID), c.opts)
			c.checkLookup(fmt.Sprintf("Field(%d) after SetField", f.ID), got, nv)
			// lookups inside the replaced child (it is not loaded yet): nothing of the old value may answer
			if got != nil && cur != nil && f.T.Kind == tMAP && !got.IsError() {
				for i, k := range cur.Keys {
					if i >= 6 {
						break
					}
					var step pstep
					var sub *generic.PathNode
					if k.T.Kind == tSTRING {
						step = pstep{Kind: 2, SKey: string(k.S)}
						sub = got.GetByStr(step.SKey, c.opts)
					} else {
						step = pstep{Kind: 3, IKey: k.I}
						sub = got.GetByInt(int(k.I), c.opts)
					}
					want, _, _ := childAt(nv, step)
					if sub == nil || sub.IsError() || sub.Node.IsEmpty() {
						continue // not loaded: no answer is fine
					}
					if want == nil {
						w.Failf("lookup-stale-child", c.facts, "Field(%d) was replaced; a lookup of %s inside it answers with an entry of the old map (%x)", f.ID, step, clipb(sub.Node.Raw(), 60))
					}
					if !bytes.Equal(sub.Node.Raw(), encodeThrift(nil, want)) {
						w.Failf("lookup-stale-child", c.facts, "Field(%d) was replaced; a lookup of %s inside it returns %x, the new map holds %x", f.ID, step, clipb(sub.Node.Raw(), 60), clipb(encodeThrift(nil, want), 60))
					}
				}
				w.Count("lookup_inside_replaced_map")
			}
		default: // clear
			if cur == nil {
				return
			}
			w.NextOp(fmt.Sprintf("clear Field(%d)", f.ID))
			got := tree.Field(thrift.FieldID(f.ID), c.opts)
			if got == nil || got.IsError() {
				w.Failf("lookup-missing", c.facts, "Field(%d) of a present field returned nothing", f.ID)
			}
			got.Node = generic.Node{}
			got.Next = got.Next[:0]
			// the child stays in the tree as an empty node (it marshals as absent; a later SetField finds it)
			model.Fields[idx].V = nil
			w.Count("edit_clear")
		}
	case tMAP:
		isStr := model.T.Key.Kind == tSTRING
		var step pstep
		if len(model.Keys) > 0 && t.Chance(2, 3, "edit.existing") {
			k := model.Keys[t.Intn(len(model.Keys), "edit.key")]
			if isStr {
				step = pstep{Kind: 2, SKey: string(k.S)}
			} else {
				step = pstep{Kind: 3, IKey: k.I}
			}
		} else if t.Chance(1, 4, "edit.zerokey") {
			// the zero value of the key type: what an unused slot of a hashed children table holds
			if isStr {
				step = pstep{Kind: 2, SKey: ""}
			} else {
				step = pstep{Kind: 3, IKey: 0}
			}
		} else if isStr {
			step = pstep{Kind: 2, SKey: fmt.Sprintf("nk%d", t.Intn(50, "edit.newkey"))}
		} else {
			step = pstep{Kind: 3, IKey: int64(t.Intn(100, "edit.newikey"))}
		}
		cur, idx, _ := childAt(model, step)
		get := func() *generic.PathNode {
			if isStr {
				return tree.GetByStr(step.SKey, c.opts)
			}
			return tree.GetByInt(int(step.IKey), c.opts)
		}
		if t.Chance(1, 2, "edit.kind") {
			w.NextOp("Get " + step.String())
			w.opFacts = c.facts
			got := get()
			w.opFacts = nil
			c.checkLookup("Get "+step.String(), got, cur)
		} else {
			nv := vg.value(model.T.Elem, 1)
			w.NextOp("Set " + step.String())
			w.opFacts = c.facts
			var exist bool
			var err error
			if isStr {
				exist, err = tree.SetByStr(step.SKey, mkNode(nv), c.opts)
			} else {
				exist, err = tree.SetByInt(int(step.IKey), mkNode(nv), c.opts)
			}
			w.opFacts = nil
			if err != nil {
				w.Failf("setkey-failed", c.facts, "Set %s failed: %v", step, err)
			}
			if exist != (idx >= 0) {
				w.Failf("exist-flag", c.facts, "Set %s reported exist=%v, model says %v", step, exist, idx >= 0)
			}
			modelSet(model, []pstep{step}, nv)
			w.Count("edit_setkey")
			c.checkLookup("Get "+step.String()+" after Set", get(), nv)
		}
	default:
		// lists: replace an element through the tree
		if len(model.List) == 0 || len(tree.Next) != len(model.List) {
			return
		}
		i := t.Intn(len(model.List), "edit.index")
		nv := vg.value(model.T.Elem, 1)
		w.NextOp(fmt.Sprintf("replace element %d", i))
		tree.Next[i].Node = mkNode(nv)
		tree.Next[i].Next = tree.Next[i].Next[:0]
		model.List[i] = nv
		w.Count("edit_setindex")
	}
}

func (c *c05) checkLookup(what string, got *generic.PathNode, want *TVal) {
	w := c.w
	if want == nil {
		if got != nil && !got.IsError() && !got.Node.IsEmpty() {
			w.Failf("lookup-phantom", c.facts, "%s: the key is absent from the tree, but the lookup returned a child (%s, %d bytes)", what, got.Path.String(), len(got.Node.Raw()))
		}
		w.Count("lookup_absent")
		return
	}
	if got == nil || got.IsError() {
		w.Failf("lookup-missing", c.facts, "%s: the key is present, but the lookup returned nothing", what)
	}
	isContainer := want.T.Kind == tSTRUCT || want.T.Kind == tLIST || want.T.Kind == tSET || want.T.Kind == tMAP
	if isContainer && c.opts.NotScanParentNode && c.rec && len(got.Node.Raw()) == 0 {
		// documented: with NotScanParentNode the parent nodes of complex type carry no data
		w.Count("lookup_present_unscanned_parent")
		return
	}
	if !bytes.Equal(got.Node.Raw(), encodeThrift(nil, want)) {
		w.Failf("lookup-wrong-child", c.facts, "%s: returned child holds %x, want %x", what, clipb(got.Node.Raw(), 100), clipb(encodeThrift(nil, want), 100))
	}
	w.Count("lookup_present")
}

func sizeBucket(n int) int {
	b := 0
	for n > 0 {
		n >>= 2
		b++
	}
	return b
}

// libNode builds the node for an edit value. Scalars are sometimes built by the library's own
// constructors (NewNodeAny and the typed ones) instead of from the harness encoder's bytes: the node then
// lives in a buffer the library allocated (or took from a pool), which must stay intact for as long as the
// node is in the tree.
func libNode(t *simrt.Tape, v *TVal) generic.Node {
	plain := func() generic.Node { return generic.NewNode(thrift.Type(v.T.Kind), encodeThrift(nil, v)) }
	switch v.T.Kind {
	case tBOOL, tBYTE, tI16, tI32, tI64, tDOUBLE, tSTRING:
	default:
		return plain()
	}
	switch t.Intn(4, "node.ctor") {
	case 0: // NewNodeAny
		var x interface{}
		switch v.T.Kind {
		case tBOOL:
			x = v.B
		case tBYTE:
			x = int8(v.I)
		case tI16:
			x = int16(v.I)
		case tI32:
			x = int32(v.I)
		case tI64:
			x = v.I
		case tDOUBLE:
			x = v.D
		case tSTRING:
			if v.T.Binary {
				x = append([]byte{}, v.S...)
			} else {
				x = string(v.S)
			}
		}
		return generic.NewNodeAny(x, &generic.Options{})
	case 1: // typed constructors
		switch v.T.Kind {
		case tBOOL:
			return generic.NewNodeBool(v.B)
		case tBYTE:
			return generic.NewNodeByte(byte(v.I))
		case tI16:
			return generic.NewNodeInt16(int16(v.I))
		case tI32:
			return generic.NewNodeInt32(int32(v.I))
		case tI64:
			return generic.NewNodeInt64(v.I)
		case tDOUBLE:
			return generic.NewNodeDouble(v.D)
		case tSTRING:
			if v.T.Binary {
				return generic.NewNodeBinary(append([]byte{}, v.S...))
			}
			return generic.NewNodeString(string(v.S))
		}
	}
	return plain()
}
