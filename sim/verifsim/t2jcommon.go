package main

import (
	"bytes"
	"context"
	"fmt"

	"github.com/cloudwego/dynamicgo/conv/t2j"
	"github.com/cloudwego/dynamicgo/internal/simrt"
	"github.com/cloudwego/dynamicgo/thrift"
)

// t2jEnv is one environment for a Thrift->JSON call.
type t2jEnv struct {
	DoInto   bool
	CapMode  int // 0 nil/tiny, 1 = prefix+2*len(src)+Delta (GuardSlice does not regrow), 2 = expected-k, 3 huge
	Delta    int
	Prefix   int
	OutPlace int
	InPlace  int
}

func (e t2jEnv) String() string {
	if !e.DoInto {
		return fmt.Sprintf("Do in=%s", simrt.PlaceNames[e.InPlace])
	}
	return fmt.Sprintf("DoInto capmode=%d delta=%d prefix=%d out=%s in=%s", e.CapMode, e.Delta, e.Prefix, simrt.PlaceNames[e.OutPlace], simrt.PlaceNames[e.InPlace])
}

func drawT2JEnv(w *W) t2jEnv {
	t := w.T
	var e t2jEnv
	e.DoInto = t.Chance(2, 3, "env.dointo")
	switch t.Intn(6, "env.inplace") {
	case 0, 1, 2:
		e.InPlace = simrt.PlaceHeap
	case 3:
		e.InPlace = simrt.PlaceGuardEnd
	case 4:
		e.InPlace = simrt.PlaceGuardFront
	default:
		e.InPlace = simrt.PlaceReadOnly
	}
	if e.DoInto {
		e.CapMode = t.Intn(4, "env.capmode")
		e.Delta = t.Intn(40, "env.delta")
		if t.Chance(1, 4, "env.prefix") {
			e.Prefix = 1 + t.Intn(40, "env.prefix.n")
		}
		switch t.Intn(4, "env.outplace") {
		case 0:
			e.OutPlace = simrt.PlaceHeap
		case 1, 2:
			e.OutPlace = simrt.PlaceCanary
		default:
			e.OutPlace = simrt.PlaceGuardEnd
		}
	}
	return e
}

type t2jOutcome struct {
	Out []byte
	Err error
}

// runT2J performs one conversion and checks prefix / canary / len<=cap / input unmodified.
// expLen is the length of a previously observed output for this message (0 if unknown).
func runT2J(w *W, cv *t2j.BinaryConv, desc *thrift.TypeDescriptor, src []byte, env t2jEnv, ctx context.Context, expLen int) t2jOutcome {
	in := w.AllocData(src, env.InPlace)
	doc, tailOK := in.B, func() bool { return true }
	if env.InPlace == simrt.PlaceHeap && len(src)%2 == 0 {
		doc, tailOK = withTail(src) // the input is a prefix of a larger buffer of the caller's
	}
	var res t2jOutcome
	if !env.DoInto {
		callOn(w, func() { res.Out, res.Err = cv.Do(ctx, desc, doc) })
	} else {
		c := env.Prefix
		switch env.CapMode {
		case 1:
			c = env.Prefix + 2*len(src) + env.Delta
		case 2:
			c = env.Prefix + expLen - env.Delta
			if c < env.Prefix {
				c = env.Prefix
			}
		case 3:
			c = env.Prefix + 8192 + env.Delta
		}
		ob := w.Alloc(c, env.OutPlace)
		buf := ob.B
		for i := 0; i < env.Prefix; i++ {
			buf = append(buf, byte(0xC0+i%16))
		}
		callOn(w, func() { res.Err = cv.DoInto(ctx, desc, doc, &buf) })
		if len(buf) > cap(buf) {
			w.Failf("len-exceeds-cap", nil, "DoInto returned len(buf)=%d > cap(buf)=%d (env %s)", len(buf), cap(buf), env)
		}
		if !ob.CanaryOK() {
			w.Failf("canary", nil, "bytes after the caller buffer's capacity were overwritten (env %s, cap %d)", env, c)
		}
		if len(buf) < env.Prefix {
			w.Failf("prefix-lost", nil, "DoInto shrank the buffer below the caller's prefix (env %s)", env)
		}
		for i := 0; i < env.Prefix; i++ {
			if buf[i] != byte(0xC0+i%16) {
				w.Failf("prefix-modified", nil, "DoInto modified the caller's prefix at %d (env %s)", i, env)
			}
		}
		res.Out = buf[env.Prefix:]
	}
	if !tailOK() {
		w.Failf("input-modified", nil, "conversion wrote into the caller's buffer behind the end of its input")
	}
	if !bytes.Equal(in.B, src) || !bytes.Equal(doc, src) {
		w.Failf("input-modified", nil, "conversion modified its input")
	}
	return res
}
