package main

import (
	"encoding/binary"
	"fmt"
	"math"
	"math/big"
	"strconv"
	"strings"

	"github.com/cloudwego/dynamicgo/internal/simrt"
)

// ---- harness-owned Thrift schema + value model. Shares no code with the library.

const (
	tBOOL   = 2
	tBYTE   = 3
	tDOUBLE = 4
	tI16    = 6
	tI32    = 8
	tI64    = 10
	tSTRING = 11
	tSTRUCT = 12
	tMAP    = 13
	tSET    = 14
	tLIST   = 15
)

const (
	reqDefault  = 0
	reqRequired = 1
	reqOptional = 2
)

type TType struct {
	Kind   byte
	Binary bool
	Key    *TType
	Elem   *TType
	St     *TStruct
}

type TField struct {
	ID      int
	Name    string
	Alias   string // JSON key when an api.key / go.tag annotation is present ("" = Name)
	Req     int
	T       *TType
	Default *TVal  // IDL default (scalars/strings only)
	Typedef string // the field's type is spelled through this typedef name ("" = directly)
	DefText string // how the default is spelled in the IDL when it is not a literal (constant / enum value, local or included)
	Anno    string // raw annotation text appended to the IDL field
	JSConv  bool
	Query   string // api.query source name ("" = none)
}

// jsConvType: the types the api.js_conv value mapping renders as strings (integers, doubles, strings and lists of them).
func jsConvType(t *TType) bool {
	switch t.Kind {
	case tBYTE, tI16, tI32, tI64, tDOUBLE:
		return true
	case tSTRING:
		return !t.Binary
	case tLIST:
		return t.Elem.Kind != tLIST && jsConvType(t.Elem)
	}
	return false
}

func (f *TField) Key() string {
	if f.Alias != "" {
		return f.Alias
	}
	return f.Name
}

type TStruct struct {
	Name string
	// File: "" = declared in the main IDL file, "inc" = declared in the included file inc.thrift
	File   string
	Fields []*TField
	// RawFields are extra IDL field lines the value model does not know (e.g. the thrift request base)
	RawFields []string
}

func (s *TStruct) ByName(n string) *TField {
	for _, f := range s.Fields {
		if f.Name == n {
			return f
		}
	}
	return nil
}

func (s *TStruct) ByID(id int) *TField {
	for _, f := range s.Fields {
		if f.ID == id {
			return f
		}
	}
	return nil
}

type TSchema struct {
	Structs []*TStruct // declaration order (dependencies first, except recursion)
	Root    *TType
	IDL     string
	// Includes: extra IDL files (path -> content) and the include lines of the main file
	Includes    map[string]string
	IncludeText string
	// Consts: constant / enum declarations of the main file (defaults spelled through identifiers)
	Consts []string
	// ExcID: field id of the exception in the response wrapper (0 = 1)
	ExcID int
}

// AddInclude registers an included IDL file (and its include line) once.
func (s *TSchema) AddInclude(path, content string) {
	if s.Includes == nil {
		s.Includes = map[string]string{}
	}
	if _, ok := s.Includes[path]; !ok {
		s.IncludeText += "include \"" + path + "\"\n"
	}
	s.Includes[path] = content
}

type TVal struct {
	T      *TType
	B      bool
	I      int64
	D      float64
	S      []byte
	Fields []TFieldVal // struct members in wire/document order
	List   []*TVal
	Keys   []*TVal
	Vals   []*TVal
	Zero   bool // written as an unset field's zero value: nested unset-field expansion does not apply
	// NumText, when set, is the exact JSON spelling of this double (long decimal expansions, ties)
	NumText string
}

type TFieldVal struct {
	F *TField
	V *TVal // nil = JSON null member (rendered as null, omitted on the wire)
	// Unknown member (no descriptor): rendered with UnknownJSON, skipped on the wire.
	UnknownKey  string
	UnknownJSON string
	UnknownRaw  []byte // Thrift side: a complete encoded field (header + value) the schema does not know
}

func typeName(t *TType) string { return typeNameIn(t, "*") }

// typeNameIn spells a type as seen from an IDL file: structs of another file carry its reference name.
func typeNameIn(t *TType, file string) string {
	switch t.Kind {
	case tBOOL:
		return "bool"
	case tBYTE:
		return "byte"
	case tDOUBLE:
		return "double"
	case tI16:
		return "i16"
	case tI32:
		return "i32"
	case tI64:
		return "i64"
	case tSTRING:
		if t.Binary {
			return "binary"
		}
		return "string"
	case tSTRUCT:
		if file != "*" && t.St.File != file && t.St.File != "" {
			return t.St.File + "." + t.St.Name
		}
		return t.St.Name
	case tMAP:
		return "map<" + typeNameIn(t.Key, file) + "," + typeNameIn(t.Elem, file) + ">"
	case tSET:
		return "set<" + typeNameIn(t.Elem, file) + ">"
	case tLIST:
		return "list<" + typeNameIn(t.Elem, file) + ">"
	}
	return "?"
}

// ---- schema generation

type tgenOpts struct {
	MaxStructs int
	MaxFields  int
	MaxDepth   int
	BigIDs     bool // allow ids up to 32767
	ManyFields bool // occasionally a very wide struct
	// NumberedFields > 0: the root struct gets that many extra scalar fields named item_1..item_N (names that no single
	// character position tells apart: the descriptor's name index is a hash map then, not a trie)
	NumberedFields int
	KeyKinds       []byte
	Aliases        bool
	Defaults       bool
	Requiredness   bool // mix required/optional (otherwise all default-requiredness)
	Recursive      bool
	JSConv         bool
	// JSConvScalars: api.js_conv only on scalar fields (the JSON->Thrift side of the mapping has no list form)
	JSConvScalars bool
	// JSConvNoI16: no api.js_conv on i16 fields (the precondition of the open native finding F43)
	JSConvNoI16 bool
	// MixedCaseAnno: annotation keys are spelled with upper-case letters here and there (Api.Key, API.JS_CONV):
	// the keys are case-insensitive
	MixedCaseAnno bool
	NoSet         bool
	NoBinary      bool
	StructMapKeys bool
	DoubleKeys    bool
	// OptionalDefaults lets optional fields carry IDL defaults too (rarely enabled: together with
	// SetOptionalBitmap+UseDefaultValue it is the precondition of a known native/Go divergence).
	OptionalDefaults bool
	// ConstDefaults: some defaults are spelled through identifiers - a constant, a constant defined by another
	// constant, an enum value, each either in the main file or in an included one
	ConstDefaults bool
	// SharedNames: field names are drawn from a small pool, so that different structs declare the same name
	// under different ids
	SharedNames bool
	// ZeroID: some structs declare a field with id 0
	ZeroID bool
	// Typedefs: base types are now and then referred to through a typedef (typedef binary Blob, typedef i64 Id, ...)
	Typedefs bool
	// SplitFiles: the first structs of the schema are declared in an included file (referenced as inc.Name
	// from the main file, by their bare names inside it); sometimes the main file declares a struct of its
	// own under the same name as an included one
	SplitFiles bool
	// ForceSelf: the root struct gets an optional field of its own type (deep nesting worlds)
	ForceSelf bool
	// QueryAnno: some scalar / string fields carry (api.query = "q_<name>") - only meaningful for
	// converters with EnableHttpMapping
	QueryAnno bool
}

type tgen struct {
	t    *simrt.Tape
	o    tgenOpts
	sch  *TSchema
	nctr int
	inc  []string // declarations of the included file defs.thrift
	// typedefs declared so far (main file)
	typedefs map[string]bool
}

// constSpelling declares what is needed for the default v to be written through an identifier and
// returns that identifier ("" = keep the literal).
func (g *tgen) constSpelling(t *TType, v *TVal) string {
	lit := renderDefault(v)
	if lit == "" {
		return ""
	}
	form := g.t.Intn(6, "def.const.form")
	included := form >= 3
	decl := func(line string) {
		if included {
			g.inc = append(g.inc, line)
		} else {
			g.sch.Consts = append(g.sch.Consts, line)
		}
	}
	ref := func(name string) string {
		if included {
			return "defs." + name
		}
		return name
	}
	tn := typeName(t)
	k := g.ident("K")
	switch form % 3 {
	case 0: // constant with a literal value
		decl(fmt.Sprintf("const %s %s = %s", tn, k, lit))
		return ref(k)
	case 1: // constant defined through another constant of the same file
		k2 := g.ident("K")
		decl(fmt.Sprintf("const %s %s = %s", tn, k2, lit))
		decl(fmt.Sprintf("const %s %s = %s", tn, k, k2))
		return ref(k)
	default: // enum value (integers only), directly or through a constant
		if !(t.Kind == tI16 || t.Kind == tI32 || t.Kind == tI64 || t.Kind == tBYTE) || v.I < 0 || v.I > math.MaxInt32 {
			decl(fmt.Sprintf("const %s %s = %s", tn, k, lit))
			return ref(k)
		}
		e := g.ident("E")
		decl(fmt.Sprintf("enum %s {\n  %sA = %d\n  %sB = %d\n}", e, e, v.I+1, e, v.I))
		if g.t.Chance(1, 2, "def.const.enumconst") {
			decl(fmt.Sprintf("const %s %s = %s.%sB", tn, k, e, e))
			return ref(k)
		}
		return ref(e + "." + e + "B")
	}
}

func (g *tgen) scalarType() *TType {
	kinds := []byte{tI64, tSTRING, tI32, tBOOL, tDOUBLE, tBYTE, tI16, tSTRING}
	k := kinds[g.t.Intn(len(kinds), "scalar.kind")]
	tt := &TType{Kind: k}
	if k == tSTRING && !g.o.NoBinary && g.t.Chance(1, 4, "binary") {
		tt.Binary = true
	}
	return tt
}

func (g *tgen) keyType() *TType {
	if g.o.StructMapKeys && len(g.sch.Structs) > 0 && g.t.Chance(1, 3, "key.struct") {
		// legal Thrift, not expressible in JSON: only worlds that never render the value as JSON ask for it
		return &TType{Kind: tSTRUCT, St: g.sch.Structs[g.t.Intn(len(g.sch.Structs), "key.struct.which")]}
	}
	ks := g.o.KeyKinds
	if len(ks) == 0 {
		ks = []byte{tSTRING, tI64, tI32, tI16, tBYTE}
	}
	return &TType{Kind: ks[g.t.Intn(len(ks), "key.kind")]}
}

func (g *tgen) anyType(depth int, self *TStruct) *TType {
	if depth <= 0 {
		return g.scalarType()
	}
	switch g.t.Intn(10, "type.shape") {
	case 0, 1, 2, 3, 4:
		return g.scalarType()
	case 5:
		return &TType{Kind: tLIST, Elem: g.anyType(depth-1, self)}
	case 6:
		if g.o.NoSet {
			return &TType{Kind: tLIST, Elem: g.anyType(depth-1, self)}
		}
		return &TType{Kind: tSET, Elem: g.scalarType()}
	case 7:
		return &TType{Kind: tMAP, Key: g.keyType(), Elem: g.anyType(depth-1, self)}
	default:
		// struct: an earlier one, a new one, or (rarely) self
		if g.o.Recursive && self != nil && g.t.Chance(1, 5, "type.self") {
			return &TType{Kind: tSTRUCT, St: self}
		}
		if len(g.sch.Structs) > 0 && (len(g.sch.Structs) >= g.o.MaxStructs || g.t.Chance(1, 2, "type.reuse")) {
			return &TType{Kind: tSTRUCT, St: g.sch.Structs[g.t.Intn(len(g.sch.Structs), "type.which")]}
		}
		if len(g.sch.Structs) >= g.o.MaxStructs {
			return g.scalarType()
		}
		return &TType{Kind: tSTRUCT, St: g.newStruct(depth - 1)}
	}
}

var fieldNameAlphabet = "abcdefghijklmnopqrstuvwxyzABCDEFGHIJKLMNOPQRSTUVWXYZ_0123456789"

func (g *tgen) ident(prefix string) string {
	g.nctr++
	n := 1 + g.t.Intn(6, "ident.len")
	var sb strings.Builder
	sb.WriteString(prefix)
	for i := 0; i < n; i++ {
		sb.WriteByte(fieldNameAlphabet[g.t.Intn(52, "ident.ch")])
	}
	fmt.Fprintf(&sb, "%d", g.nctr)
	return sb.String()
}

var specialKeyPieces = []string{"-", "$", "#", " ", "+", ",", "!", "%", "&", "(", ")", "*", ".", "/", ":", "'", "\"", "\t", "é", "中", "a", "Z", "0", "_"}

// specialKey builds a JSON member key that is not an identifier.
func (g *tgen) specialKey() string {
	g.nctr++
	n := 1 + g.t.Intn(5, "skey.len")
	s := "k"
	for i := 0; i < n; i++ {
		s += specialKeyPieces[g.t.Intn(len(specialKeyPieces), "skey.piece")]
	}
	return s + fmt.Sprint(g.nctr)
}

// idlQuote writes s as a Thrift IDL string literal (double quotes; only the double quote is escaped).
func idlQuote(s string) string {
	if !strings.Contains(s, "\"") {
		return "\"" + s + "\""
	}
	if !strings.Contains(s, "'") {
		return "'" + s + "'"
	}
	return "\"" + strings.ReplaceAll(s, "\"", "\\\"") + "\""
}

func (g *tgen) newStruct(depth int) *TStruct {
	st := &TStruct{Name: g.ident("S")}
	nf := 1 + g.t.Intn(g.o.MaxFields, "struct.nfields")
	if g.o.ManyFields && g.t.Chance(1, 12, "struct.wide") {
		nf = 20 + g.t.Intn(60, "struct.wide.n")
	}
	used := map[int]bool{}
	nextID := 1
	if g.o.ZeroID && g.t.Chance(1, 3, "struct.zeroid") {
		nextID = 0 // field id 0 is legal (the response wrapper's `success`)
	}
	for i := 0; i < nf; i++ {
		id := nextID
		if g.o.BigIDs && g.t.Chance(1, 5, "field.bigid") {
			id = pickInt(g.t, "field.bigid.v", 63, 64, 65, 127, 128, 255, 256, 257, 511, 1000, 4095, 32767, 2000, 300)
			id += g.t.Intn(3, "field.bigid.j")
			if id > 32767 {
				id = 32767
			}
		} else if g.t.Chance(1, 4, "field.gap") {
			id = nextID + g.t.Intn(5, "field.gap.n")
		}
		if id > 32767 {
			id = 1
		}
		for used[id] {
			id++
			if id > 32767 {
				id = 1
			}
		}
		used[id] = true
		if id >= nextID {
			nextID = id + 1
		}
		f := &TField{ID: id, Name: g.ident("f")}
		if g.o.SharedNames && g.t.Chance(1, 2, "field.sharedname") {
			n := fmt.Sprintf("shared%d", g.t.Intn(5, "field.sharedname.which"))
			if st.ByName(n) == nil {
				f.Name = n
			}
		}
		f.T = g.anyType(depth, st)
		if g.o.Requiredness {
			f.Req = g.t.Intn(3, "field.req")
			if f.T.Kind == tSTRUCT && f.T.St == st && f.Req == reqRequired {
				f.Req = reqOptional
			}
		}
		if g.o.Aliases && g.t.Chance(1, 5, "field.alias") {
			f.Alias = g.ident("k")
			switch g.t.Intn(4, "field.alias.kind") {
			case 0, 1:
				f.Anno = fmt.Sprintf(` (api.key = "%s")`, f.Alias)
			case 2:
				f.Anno = fmt.Sprintf(" (go.tag = 'json:\"%s\"')", f.Alias)
			default:
				// a JSON key is an arbitrary string: punctuation below '.', quotes, blanks, control and non-ASCII characters
				f.Alias = g.specialKey()
				f.Anno = " (api.key = " + idlQuote(f.Alias) + ")"
			}
		}
		if g.o.JSConv && f.Anno == "" && jsConvType(f.T) && !(g.o.JSConvScalars && f.T.Kind == tLIST) && !(g.o.JSConvNoI16 && f.T.Kind == tI16) && g.t.Chance(1, 4, "field.jsconv") {
			f.JSConv = true
			f.Anno = ` (api.js_conv = "true")`
		}
		if g.o.MixedCaseAnno && f.Anno != "" && g.t.Chance(1, 2, "field.anno.case") {
			for _, k := range []string{"api.key", "api.js_conv"} {
				f.Anno = strings.Replace(f.Anno, "("+k+" ", "("+[]string{strings.ToUpper(k), strings.Title(k), strings.ToUpper(k[:1]) + k[1:]}[g.t.Intn(3, "field.anno.case.how")]+" ", 1)
			}
		}
		if g.o.QueryAnno && f.Anno == "" && (f.T.Kind == tI64 || f.T.Kind == tI32 || f.T.Kind == tBOOL || (f.T.Kind == tSTRING && !f.T.Binary)) && g.t.Chance(1, 2, "field.query") {
			f.Query = "q_" + f.Name
			f.Anno = fmt.Sprintf(` (api.query = "%s")`, f.Query)
		}
		if g.o.Defaults && (f.Req == reqDefault || (f.Req == reqOptional && g.o.OptionalDefaults)) && g.t.Chance(1, 3, "field.default") {
			f.Default = g.defaultFor(f.T)
			if f.Default != nil && g.o.ConstDefaults && g.t.Chance(1, 3, "field.default.const") {
				f.DefText = g.constSpelling(f.T, f.Default)
			}
		}
		if g.o.Typedefs && g.t.Chance(1, 4, "field.typedef") {
			switch f.T.Kind {
			case tBOOL, tBYTE, tI16, tI32, tI64, tDOUBLE, tSTRING:
				base := typeName(f.T)
				name := "T" + strings.ToUpper(base[:1]) + base[1:]
				if !g.typedefs[name] {
					if g.typedefs == nil {
						g.typedefs = map[string]bool{}
					}
					g.typedefs[name] = true
					g.sch.Consts = append(g.sch.Consts, "typedef "+base+" "+name)
				}
				f.Typedef = name
			}
		}
		st.Fields = append(st.Fields, f)
	}
	// shuffle declaration order a little: ids "in any order"
	if g.t.Chance(1, 3, "struct.shuffle") {
		for i := len(st.Fields) - 1; i > 0; i-- {
			j := g.t.Intn(i+1, "struct.shuffle.j")
			st.Fields[i], st.Fields[j] = st.Fields[j], st.Fields[i]
		}
	}
	g.sch.Structs = append(g.sch.Structs, st)
	return st
}

func (g *tgen) defaultFor(t *TType) *TVal {
	switch t.Kind {
	case tBOOL:
		return &TVal{T: t, B: true}
	case tBYTE:
		return &TVal{T: t, I: int64(1 + g.t.Intn(100, "def.i"))}
	case tI16, tI32, tI64:
		return &TVal{T: t, I: int64(1 + g.t.Intn(30000, "def.i"))}
	case tDOUBLE:
		return &TVal{T: t, D: float64(1+g.t.Intn(1000, "def.d")) / 8}
	case tSTRING:
		if t.Binary {
			return nil
		}
		return &TVal{T: t, S: []byte(g.ident("dv"))}
	}
	return nil
}

func genSchema(t *simrt.Tape, o tgenOpts) *TSchema {
	g := &tgen{t: t, o: o, sch: &TSchema{}}
	root := g.newStruct(o.MaxDepth)
	g.sch.Root = &TType{Kind: tSTRUCT, St: root}
	if o.NumberedFields > 0 {
		maxID := 0
		for _, f := range root.Fields {
			if f.ID > maxID {
				maxID = f.ID
			}
		}
		for i := 1; i <= o.NumberedFields && maxID < 32767; i++ {
			maxID++
			k := []byte{tI32, tSTRING, tBOOL}[g.t.Intn(3, "numbered.kind")]
			root.Fields = append(root.Fields, &TField{ID: maxID, Name: fmt.Sprintf("item_%d", i), T: &TType{Kind: k}})
		}
	}
	if o.ForceSelf {
		has, maxID := false, 0
		for _, f := range root.Fields {
			if f.T.Kind == tSTRUCT && f.T.St == root && f.Req != reqRequired {
				has = true
			}
			if f.ID > maxID {
				maxID = f.ID
			}
		}
		if !has && maxID < 32767 {
			root.Fields = append(root.Fields, &TField{ID: maxID + 1, Name: g.ident("self"), Req: reqOptional, T: &TType{Kind: tSTRUCT, St: root}})
		}
	}
	if o.SplitFiles && !o.ConstDefaults && len(g.sch.Structs) >= 2 {
		k := 1 + g.t.Intn(len(g.sch.Structs)-1, "split.k") // a prefix of the declaration order is closed under references
		for _, st := range g.sch.Structs[:k] {
			st.File = "inc"
		}
		if g.t.Chance(1, 2, "split.homonym") {
			// a struct of the included file that another struct of that file refers to by its bare name ...
			var x *TStruct
			for _, y := range g.sch.Structs[:k] {
				for _, f := range y.Fields {
					if f.T.Kind == tSTRUCT && f.T.St != y && f.T.St.File == "inc" {
						x = f.T.St
					}
				}
			}
			if x != nil {
				// ... and a different struct of the same name in the main file, used by the first field of the root
				sh := &TStruct{Name: x.Name, Fields: []*TField{{ID: 1, Name: g.ident("hm"), T: &TType{Kind: tI64}}, {ID: 2, Name: g.ident("hm"), T: &TType{Kind: tSTRING}}}}
				maxID := 0
				for _, f := range root.Fields {
					if f.ID > maxID {
						maxID = f.ID
					}
				}
				if maxID < 32767 {
					nf := &TField{ID: maxID + 1, Name: g.ident("hm"), Req: reqOptional, T: &TType{Kind: tSTRUCT, St: sh}}
					root.Fields = append([]*TField{nf}, root.Fields...)
					all := append([]*TStruct{}, g.sch.Structs[:k]...)
					all = append(all, sh)
					g.sch.Structs = append(all, g.sch.Structs[k:]...)
				}
			}
		}
		var ib strings.Builder
		ib.WriteString("namespace go inc\n\n")
		renderStructs(&ib, g.sch.Structs, "inc")
		g.sch.AddInclude("inc.thrift", ib.String())
	}
	if len(g.inc) > 0 {
		g.sch.AddInclude("defs.thrift", "namespace go defs\n\n"+strings.Join(g.inc, "\n")+"\n")
	}
	g.sch.IDL = renderIDL(g.sch)
	return g.sch
}

func renderDefault(v *TVal) string {
	switch v.T.Kind {
	case tBOOL:
		if v.B {
			return "true"
		}
		return "false"
	case tBYTE, tI16, tI32, tI64:
		return fmt.Sprintf("%d", v.I)
	case tDOUBLE:
		return fmt.Sprintf("%v", v.D)
	case tSTRING:
		return fmt.Sprintf("%q", string(v.S))
	}
	return ""
}

// renderStructs writes the structs declared in file.
func renderStructs(sb *strings.Builder, structs []*TStruct, file string) {
	for _, st := range structs {
		if st.File != file {
			continue
		}
		fmt.Fprintf(sb, "struct %s {\n", st.Name)
		for _, f := range st.Fields {
			req := ""
			switch f.Req {
			case reqRequired:
				req = "required "
			case reqOptional:
				req = "optional "
			}
			def := ""
			if f.Default != nil {
				def = " = " + renderDefault(f.Default)
				if f.DefText != "" {
					def = " = " + f.DefText
				}
			}
			tn := typeNameIn(f.T, file)
			if f.Typedef != "" && file == "" {
				tn = f.Typedef
			}
			fmt.Fprintf(sb, "  %d: %s%s %s%s%s\n", f.ID, req, tn, f.Name, def, f.Anno)
		}
		for _, rf := range st.RawFields {
			sb.WriteString("  " + rf + "\n")
		}
		sb.WriteString("}\n\n")
	}
}

func renderIDL(s *TSchema) string {
	var sb strings.Builder
	sb.WriteString(s.IncludeText)
	sb.WriteString("namespace go sim\n\n")
	for _, c := range s.Consts {
		sb.WriteString(c + "\n")
	}
	if len(s.Consts) > 0 {
		sb.WriteString("\n")
	}
	renderStructs(&sb, s.Structs, "")
	root := s.Root.St.Name
	sb.WriteString("exception SimExc {\n  1: i32 code\n  2: string msg\n}\n\n")
	exc := s.ExcID
	if exc == 0 {
		exc = 1
	}
	fmt.Fprintf(&sb, "service Sim {\n  %s Call(1: %s req) throws (%d: SimExc e)\n}\n", root, root, exc)
	return sb.String()
}

// ---- value generation

type vgenOpts struct {
	MaxElems   int
	MaxStr     int
	Depth      int
	PresentPct int  // probability (percent) that a non-required field is present
	NullPct    int  // probability that a present non-required member is rendered as JSON null
	UnknownPct int  // probability of injecting an unknown member after a field
	FiniteOnly bool // doubles finite
	ASCIIKeys  bool
	Shuffle    bool // members in random document order
	AllowNaN   bool
	StrClass   int // 0 mixed, 1 plain ascii
	// DropRequiredPct: probability that a required field is left out (negative documents for C16).
	DropRequiredPct int
	DroppedRequired int
	// NoNullOptional: never render an optional member as null (what "null" means for a tracked
	// optional field is not stated by the properties, so it is not generated where it would matter).
	NoNullOptional bool
	// NonNegByteKeys keeps map keys of thrift type byte in 0..127 (see prop_c04.go).
	NonNegByteKeys bool
	// LongDecimals: some doubles are spelled with their exact (long) decimal expansion, or as the
	// exact midpoint between two adjacent doubles (+ a trailing digit), where only correct rounding helps
	LongDecimals bool
	// MaxNodes bounds the number of values of one generated tree (0: 4000), so that a world stays
	// small whatever the schema's fan-out is; nodes counts what has been generated so far.
	MaxNodes int
	nodes    int
	// DenseLists: now and then a list of integers / doubles is long (50-350 elements) and holds one-digit values:
	// its Thrift form is several times larger than its JSON form, so that output buffers sized after the input
	// run full in the middle of the list
	DenseLists bool
	// DeepSelf: a non-required field of the enclosing struct's own type is present with this probability
	// (percent) while depth remains - chains of nested structs as deep as Depth
	DeepSelf int
}

type vgen struct {
	t *simrt.Tape
	o vgenOpts
}

var intBoundaries = []int64{0, 1, -1, 127, -128, 128, 255, 256, 32767, -32768, 32768, 65535, 1 << 31, 1<<31 - 1, -(1 << 31), 1 << 32, 1<<53 - 1, 1 << 53, 1<<53 + 1, math.MaxInt64, math.MinInt64, math.MaxInt64 - 1, math.MinInt64 + 1, 1e15, 999999999999999999, -1e18, 10, 100, 99, 1000000, 1234567890123}

func (g *vgen) intFor(kind byte) int64 {
	var v int64
	if g.t.Chance(1, 2, "int.boundary") {
		v = intBoundaries[g.t.Intn(len(intBoundaries), "int.b")]
	} else {
		v = int64(g.t.Draw(1<<20, "int.small")) - (1 << 10)
		if g.t.Chance(1, 4, "int.wide") {
			v = int64(g.t.Draw(math.MaxUint64, "int.any"))
		}
	}
	switch kind {
	case tBYTE:
		return int64(int8(v))
	case tI16:
		return int64(int16(v))
	case tI32:
		return int64(int32(v))
	}
	return v
}

var floatSpecials = []uint64{
	0x0000000000000000, 0x8000000000000000, // +0 -0
	0x0000000000000001, 0x000fffffffffffff, // subnormals
	0x0010000000000000, 0x7fefffffffffffff, // min normal, max
	0x3ff0000000000000, 0xbff0000000000000, 0x3fb999999999999a, 0x4340000000000000, 0x4340000000000001,
	0x43e0000000000000, 0xc3e0000000000000, 0x3cb0000000000000, 0x7e37e43c8800759c, 0x01a56e1fc2f8f359,
	0x4059000000000000, 0x40c3880000000000, 0x412e848000000000, 0x3f50624dd2f1a9fc, 0x3eb0c6f7a0b5ed8d,
}

func (g *vgen) floatVal() float64 {
	switch g.t.Intn(4, "float.cls") {
	case 0:
		return float64(int64(g.t.Draw(2001, "float.int")) - 1000)
	case 1:
		return math.Float64frombits(floatSpecials[g.t.Intn(len(floatSpecials), "float.special")])
	case 2:
		return float64(int64(g.t.Draw(1<<30, "float.frac"))-(1<<29)) / 1024
	default:
		for i := 0; i < 4; i++ {
			f := math.Float64frombits(g.t.Draw(math.MaxUint64, "float.bits"))
			if !math.IsNaN(f) && !math.IsInf(f, 0) {
				return f
			}
		}
		return 1.5
	}
}

// longDecimal gives v an exact long decimal spelling; v.D becomes the correctly rounded value of it.
func (g *vgen) longDecimal(v *TVal) {
	mant := int64(g.t.Draw(1<<53, "float.long.mant")) | 1<<52
	k := g.t.Intn(140, "float.long.exp")
	f := math.Ldexp(float64(mant), -k)
	if g.t.Chance(1, 2, "float.long.neg") {
		f = -f
	}
	x := new(big.Float).SetPrec(4000).SetFloat64(f)
	tail := ""
	if g.t.Chance(2, 3, "float.long.mid") {
		next := math.Nextafter(f, math.Inf(1))
		y := new(big.Float).SetPrec(4000).SetFloat64(next)
		x.Add(x, y)
		x.Quo(x, big.NewFloat(2).SetPrec(4000))
		tail = []string{"", "1", "0000000001", "9"}[g.t.Intn(4, "float.long.tail")]
	}
	s := x.Text('f', 1200)
	if strings.Contains(s, ".") {
		s = strings.TrimRight(s, "0")
		if strings.HasSuffix(s, ".") {
			s += "0"
		}
		s += tail
	}
	d, err := strconv.ParseFloat(s, 64)
	if err != nil {
		return
	}
	v.D, v.NumText = d, s
}

// escape-relevant alphabet for strings
var strPieces = []string{"a", "b", "Z", "0", " ", "\"", "\\", "/", "\n", "\t", "\r", "\b", "\f", "\x00", "\x01", "\x1f", "\x7f", "é", "中", " ", " ", "😀", "𝄞", "<", ">", "&", "'", "ÿ", "�", "xyz", "key"}

func (g *vgen) strVal(max int) []byte {
	n := sizeClass(g.t, "str.len", max)
	if n == 0 {
		return []byte{}
	}
	mode := g.o.StrClass
	if mode == 0 {
		mode = 1 + g.t.Intn(4, "str.mode") // 1 plain, 2 sparse escapes, 3 dense escapes, 4 unicode mix
	}
	b := make([]byte, 0, n+4)
	for len(b) < n {
		switch mode {
		case 1:
			b = append(b, fieldNameAlphabet[g.t.Intn(len(fieldNameAlphabet), "str.ch")])
		case 2:
			if g.t.Chance(1, 10, "str.esc") {
				b = append(b, strPieces[g.t.Intn(len(strPieces), "str.piece")]...)
			} else {
				b = append(b, fieldNameAlphabet[g.t.Intn(len(fieldNameAlphabet), "str.ch")])
			}
		case 3:
			b = append(b, strPieces[5+g.t.Intn(12, "str.dense")]...)
		default:
			b = append(b, strPieces[g.t.Intn(len(strPieces), "str.piece")]...)
		}
	}
	return b
}

func (g *vgen) binVal(max int) []byte {
	n := sizeClass(g.t, "bin.len", max)
	b := make([]byte, n)
	for i := range b {
		b[i] = byte(g.t.Draw(256, "bin.b"))
	}
	return b
}

func (g *vgen) value(t *TType, depth int) *TVal {
	v := &TVal{T: t}
	g.o.nodes++
	if lim := g.o.MaxNodes; (lim == 0 && g.o.nodes > 4000) || (lim > 0 && g.o.nodes > lim) {
		depth = 0 // budget used up: containers below stay empty, optional members absent
	}
	switch t.Kind {
	case tBOOL:
		v.B = g.t.Chance(1, 2, "bool")
	case tBYTE, tI16, tI32, tI64:
		v.I = g.intFor(t.Kind)
	case tDOUBLE:
		v.D = g.floatVal()
		if g.o.LongDecimals && g.t.Chance(1, 8, "float.long") {
			g.longDecimal(v)
		}
	case tSTRING:
		if t.Binary {
			v.S = g.binVal(g.o.MaxStr)
		} else {
			v.S = g.strVal(g.o.MaxStr)
		}
	case tSTRUCT:
		g.structVal(v, depth)
	case tLIST, tSET:
		n := 0
		if depth > 0 {
			n = sizeClass(g.t, "list.n", g.o.MaxElems)
		}
		if g.o.DenseLists && depth > 0 && t.Kind == tLIST && (t.Elem.Kind == tI64 || t.Elem.Kind == tI32 || t.Elem.Kind == tDOUBLE) && g.t.Chance(1, 3, "list.dense") {
			n = 50 + g.t.Intn(300, "list.dense.n")
			for i := 0; i < n; i++ {
				d := int64(g.t.Intn(10, "list.dense.v"))
				v.List = append(v.List, &TVal{T: t.Elem, I: d, D: float64(d)})
			}
			g.o.nodes += n
			return v
		}
		seen := map[string]bool{}
		for i := 0; i < n; i++ {
			e := g.value(t.Elem, depth-1)
			if t.Kind == tSET {
				k := string(encodeThrift(nil, e))
				if seen[k] {
					continue
				}
				seen[k] = true
			}
			v.List = append(v.List, e)
		}
	case tMAP:
		n := 0
		if depth > 0 {
			n = sizeClass(g.t, "map.n", g.o.MaxElems)
		}
		seen := map[string]bool{}
		for i := 0; i < n; i++ {
			k := g.keyVal(t.Key, depth-1)
			ks := string(encodeThrift(nil, k))
			if seen[ks] {
				continue
			}
			seen[ks] = true
			v.Keys = append(v.Keys, k)
			v.Vals = append(v.Vals, g.value(t.Elem, depth-1))
		}
	}
	return v
}

func (g *vgen) keyVal(t *TType, depth int) *TVal {
	if t.Kind == tSTRING {
		old := g.o.StrClass
		if g.o.ASCIIKeys {
			g.o.StrClass = 1
		}
		v := &TVal{T: t, S: g.strVal(40)}
		g.o.StrClass = old
		return v
	}
	v := g.value(t, depth)
	if g.o.NonNegByteKeys && t.Kind == tBYTE && v.I < 0 {
		v.I = -(v.I + 1)
	}
	return v
}

func (g *vgen) structVal(v *TVal, depth int) {
	st := v.T.St
	idx := make([]int, len(st.Fields))
	for i := range idx {
		idx[i] = i
	}
	if g.o.Shuffle && g.t.Chance(1, 2, "struct.order") {
		for i := len(idx) - 1; i > 0; i-- {
			j := g.t.Intn(i+1, "struct.order.j")
			idx[i], idx[j] = idx[j], idx[i]
		}
	}
	for _, i := range idx {
		f := st.Fields[i]
		present := f.Req == reqRequired || g.t.Chance(g.o.PresentPct, 100, "field.present")
		if f.Req == reqRequired && g.o.DropRequiredPct > 0 && g.t.Chance(g.o.DropRequiredPct, 100, "field.dropreq") {
			present = false
			g.o.DroppedRequired++
		}
		if g.o.DeepSelf > 0 && f.T.Kind == tSTRUCT && f.T.St == st && f.Req != reqRequired {
			present = g.t.Chance(g.o.DeepSelf, 100, "field.deepself")
		}
		if f.T.Kind == tSTRUCT && depth <= 0 && f.Req != reqRequired {
			present = false // required struct chains are acyclic (self-typed fields are never required), so this terminates
		}
		if present {
			if f.Req == reqRequired && g.o.DropRequiredPct > 0 && g.o.NullPct > 0 && g.t.Chance(g.o.DropRequiredPct, 200, "field.nullreq") {
				v.Fields = append(v.Fields, TFieldVal{F: f, V: nil}) // a null required member counts as absent
				g.o.DroppedRequired++
			} else if f.Req != reqRequired && !(g.o.NoNullOptional && f.Req == reqOptional) && g.t.Chance(g.o.NullPct, 100, "field.null") {
				v.Fields = append(v.Fields, TFieldVal{F: f, V: nil})
			} else {
				v.Fields = append(v.Fields, TFieldVal{F: f, V: g.value(f.T, depth-1)})
			}
		}
		if g.o.UnknownPct > 0 && g.t.Chance(g.o.UnknownPct, 100, "field.unknown") {
			v.Fields = append(v.Fields, TFieldVal{UnknownKey: "unk_" + fmt.Sprint(g.t.Intn(1000, "unk.k")), UnknownJSON: unknownJSONs[g.t.Intn(len(unknownJSONs), "unk.v")]})
		}
	}
}

var unknownJSONs = []string{`1`, `"s"`, `null`, `true`, `{}`, `[]`, `{"a":[1,2,{"b":"}"}]}`, `[[],[[]],"]"]`, `-1.5e3`, `"\"\\"`, `{"x":{"y":{"z":null}}}`,
	// strings that end in an escaped backslash, inside containers (the closing quote is not escaped)
	`{"dir":"C:\\tmp\\","n":1}`, `["x\\","y"]`, `{"k\\":"v\\\\","z":["\\"]}`}

// ---- reference Thrift binary encoder (from the Apache spec)

func encodeThrift(b []byte, v *TVal) []byte {
	switch v.T.Kind {
	case tBOOL:
		if v.B {
			return append(b, 1)
		}
		return append(b, 0)
	case tBYTE:
		return append(b, byte(v.I))
	case tI16:
		return append(b, byte(v.I>>8), byte(v.I))
	case tI32:
		return binary.BigEndian.AppendUint32(b, uint32(v.I))
	case tI64:
		return binary.BigEndian.AppendUint64(b, uint64(v.I))
	case tDOUBLE:
		return binary.BigEndian.AppendUint64(b, math.Float64bits(v.D))
	case tSTRING:
		b = binary.BigEndian.AppendUint32(b, uint32(len(v.S)))
		return append(b, v.S...)
	case tSTRUCT:
		for _, fv := range v.Fields {
			if fv.F == nil {
				b = append(b, fv.UnknownRaw...)
				continue
			}
			if fv.V == nil {
				continue
			}
			b = append(b, fv.F.T.Kind, byte(fv.F.ID>>8), byte(fv.F.ID))
			b = encodeThrift(b, fv.V)
		}
		return append(b, 0)
	case tLIST, tSET:
		b = append(b, v.T.Elem.Kind)
		b = binary.BigEndian.AppendUint32(b, uint32(len(v.List)))
		for _, e := range v.List {
			b = encodeThrift(b, e)
		}
		return b
	case tMAP:
		b = append(b, v.T.Key.Kind, v.T.Elem.Kind)
		b = binary.BigEndian.AppendUint32(b, uint32(len(v.Keys)))
		for i := range v.Keys {
			b = encodeThrift(b, v.Keys[i])
			b = encodeThrift(b, v.Vals[i])
		}
		return b
	}
	panic("encodeThrift: bad kind")
}
