package main

import (
	"encoding/binary"
	"errors"
	"fmt"
	"math"
)

// ---- harness-owned Thrift binary decoder (schema-driven and schema-free). Independent of the library.

var errShort = errors.New("short buffer")

// decodeThrift decodes a value of type t from b and returns the model value and bytes consumed.
// Unknown struct fields (not in the schema) are skipped and reported through unknown.
func decodeThrift(b []byte, t *TType, depth int) (*TVal, int, error) {
	if depth > 80 {
		return nil, 0, errors.New("too deep")
	}
	v := &TVal{T: t}
	switch t.Kind {
	case tBOOL:
		if len(b) < 1 {
			return nil, 0, errShort
		}
		v.B = b[0] != 0
		return v, 1, nil
	case tBYTE:
		if len(b) < 1 {
			return nil, 0, errShort
		}
		v.I = int64(int8(b[0]))
		return v, 1, nil
	case tI16:
		if len(b) < 2 {
			return nil, 0, errShort
		}
		v.I = int64(int16(binary.BigEndian.Uint16(b)))
		return v, 2, nil
	case tI32:
		if len(b) < 4 {
			return nil, 0, errShort
		}
		v.I = int64(int32(binary.BigEndian.Uint32(b)))
		return v, 4, nil
	case tI64:
		if len(b) < 8 {
			return nil, 0, errShort
		}
		v.I = int64(binary.BigEndian.Uint64(b))
		return v, 8, nil
	case tDOUBLE:
		if len(b) < 8 {
			return nil, 0, errShort
		}
		v.D = math.Float64frombits(binary.BigEndian.Uint64(b))
		return v, 8, nil
	case tSTRING:
		if len(b) < 4 {
			return nil, 0, errShort
		}
		n := int(int32(binary.BigEndian.Uint32(b)))
		if n < 0 || len(b) < 4+n {
			return nil, 0, errShort
		}
		v.S = append([]byte{}, b[4:4+n]...)
		return v, 4 + n, nil
	case tSTRUCT:
		p := 0
		for {
			if len(b) < p+1 {
				return nil, 0, errShort
			}
			ft := b[p]
			if ft == 0 {
				return v, p + 1, nil
			}
			if len(b) < p+3 {
				return nil, 0, errShort
			}
			id := int(int16(binary.BigEndian.Uint16(b[p+1:])))
			p += 3
			f := t.St.ByID(id)
			if f == nil {
				n, err := skipThrift(b[p:], ft, depth+1)
				if err != nil {
					return nil, 0, err
				}
				v.Fields = append(v.Fields, TFieldVal{UnknownKey: fmt.Sprintf("#%d", id), UnknownJSON: fmt.Sprintf("%x", b[p-3:p+n])})
				p += n
				continue
			}
			if ft != f.T.Kind {
				return nil, 0, fmt.Errorf("field %d: wire type %d, schema type %d", id, ft, f.T.Kind)
			}
			fv, n, err := decodeThrift(b[p:], f.T, depth+1)
			if err != nil {
				return nil, 0, fmt.Errorf("field %d: %w", id, err)
			}
			v.Fields = append(v.Fields, TFieldVal{F: f, V: fv})
			p += n
		}
	case tLIST, tSET:
		if len(b) < 5 {
			return nil, 0, errShort
		}
		if b[0] != t.Elem.Kind {
			return nil, 0, fmt.Errorf("list elem type %d, schema %d", b[0], t.Elem.Kind)
		}
		n := int(int32(binary.BigEndian.Uint32(b[1:])))
		if n < 0 || n > len(b) {
			return nil, 0, errShort
		}
		p := 5
		for i := 0; i < n; i++ {
			e, k, err := decodeThrift(b[p:], t.Elem, depth+1)
			if err != nil {
				return nil, 0, err
			}
			v.List = append(v.List, e)
			p += k
		}
		return v, p, nil
	case tMAP:
		if len(b) < 6 {
			return nil, 0, errShort
		}
		n := int(int32(binary.BigEndian.Uint32(b[2:])))
		if n < 0 || n > len(b) {
			return nil, 0, errShort
		}
		if n > 0 && (b[0] != t.Key.Kind || b[1] != t.Elem.Kind) {
			return nil, 0, fmt.Errorf("map types %d/%d, schema %d/%d", b[0], b[1], t.Key.Kind, t.Elem.Kind)
		}
		p := 6
		for i := 0; i < n; i++ {
			k, kn, err := decodeThrift(b[p:], t.Key, depth+1)
			if err != nil {
				return nil, 0, err
			}
			p += kn
			e, en, err := decodeThrift(b[p:], t.Elem, depth+1)
			if err != nil {
				return nil, 0, err
			}
			p += en
			v.Keys = append(v.Keys, k)
			v.Vals = append(v.Vals, e)
		}
		return v, p, nil
	}
	return nil, 0, fmt.Errorf("bad kind %d", t.Kind)
}

// skipThrift returns the encoded length of a value of wire type tt at the start of b.
func skipThrift(b []byte, tt byte, depth int) (int, error) {
	if depth > 80 {
		return 0, errors.New("too deep")
	}
	switch tt {
	case tBOOL, tBYTE:
		if len(b) < 1 {
			return 0, errShort
		}
		return 1, nil
	case tI16:
		if len(b) < 2 {
			return 0, errShort
		}
		return 2, nil
	case tI32:
		if len(b) < 4 {
			return 0, errShort
		}
		return 4, nil
	case tI64, tDOUBLE:
		if len(b) < 8 {
			return 0, errShort
		}
		return 8, nil
	case tSTRING:
		if len(b) < 4 {
			return 0, errShort
		}
		n := int(int32(binary.BigEndian.Uint32(b)))
		if n < 0 || len(b) < 4+n {
			return 0, errShort
		}
		return 4 + n, nil
	case tSTRUCT:
		p := 0
		for {
			if len(b) < p+1 {
				return 0, errShort
			}
			ft := b[p]
			if ft == 0 {
				return p + 1, nil
			}
			if len(b) < p+3 {
				return 0, errShort
			}
			p += 3
			n, err := skipThrift(b[p:], ft, depth+1)
			if err != nil {
				return 0, err
			}
			p += n
		}
	case tLIST, tSET:
		if len(b) < 5 {
			return 0, errShort
		}
		n := int(int32(binary.BigEndian.Uint32(b[1:])))
		if n < 0 || n > len(b) {
			return 0, errShort
		}
		p := 5
		for i := 0; i < n; i++ {
			k, err := skipThrift(b[p:], b[0], depth+1)
			if err != nil {
				return 0, err
			}
			p += k
		}
		return p, nil
	case tMAP:
		if len(b) < 6 {
			return 0, errShort
		}
		n := int(int32(binary.BigEndian.Uint32(b[2:])))
		if n < 0 || n > len(b) {
			return 0, errShort
		}
		p := 6
		for i := 0; i < n; i++ {
			k, err := skipThrift(b[p:], b[0], depth+1)
			if err != nil {
				return 0, err
			}
			p += k
			k, err = skipThrift(b[p:], b[1], depth+1)
			if err != nil {
				return 0, err
			}
			p += k
		}
		return p, nil
	}
	return 0, fmt.Errorf("bad wire type %d", tt)
}

// equalVal compares two model values structurally (struct members as ordered lists; doubles bitwise).
func equalVal(a, b *TVal) bool {
	if a == nil || b == nil {
		return a == b
	}
	if a.T.Kind != b.T.Kind {
		return false
	}
	switch a.T.Kind {
	case tBOOL:
		return a.B == b.B
	case tBYTE, tI16, tI32, tI64:
		return a.I == b.I
	case tDOUBLE:
		return math.Float64bits(a.D) == math.Float64bits(b.D)
	case tSTRING:
		return string(a.S) == string(b.S)
	case tSTRUCT:
		if len(a.Fields) != len(b.Fields) {
			return false
		}
		for i := range a.Fields {
			x, y := a.Fields[i], b.Fields[i]
			if (x.F == nil) != (y.F == nil) {
				return false
			}
			if x.F == nil {
				if x.UnknownKey != y.UnknownKey || x.UnknownJSON != y.UnknownJSON {
					return false
				}
				continue
			}
			if x.F.ID != y.F.ID || !equalVal(x.V, y.V) {
				return false
			}
		}
		return true
	case tLIST, tSET:
		if len(a.List) != len(b.List) {
			return false
		}
		for i := range a.List {
			if !equalVal(a.List[i], b.List[i]) {
				return false
			}
		}
		return true
	case tMAP:
		if len(a.Keys) != len(b.Keys) {
			return false
		}
		for i := range a.Keys {
			if !equalVal(a.Keys[i], b.Keys[i]) || !equalVal(a.Vals[i], b.Vals[i]) {
				return false
			}
		}
		return true
	}
	return false
}

// cloneVal deep-copies a model value.
func cloneVal(v *TVal) *TVal {
	if v == nil {
		return nil
	}
	c := *v
	c.S = append([]byte(nil), v.S...)
	c.Fields = make([]TFieldVal, len(v.Fields))
	for i, f := range v.Fields {
		c.Fields[i] = f
		c.Fields[i].V = cloneVal(f.V)
	}
	c.List = make([]*TVal, len(v.List))
	for i, e := range v.List {
		c.List[i] = cloneVal(e)
	}
	c.Keys = make([]*TVal, len(v.Keys))
	c.Vals = make([]*TVal, len(v.Vals))
	for i := range v.Keys {
		c.Keys[i] = cloneVal(v.Keys[i])
		c.Vals[i] = cloneVal(v.Vals[i])
	}
	return &c
}
