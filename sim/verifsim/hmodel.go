package main

// hmodel.go - workload and reference model for property C17 (HTTP mapping).
//
// The model is written from the property statement and the documentation (conv.Options comments,
// the CloudWeGo "thrift IDL annotation standards" the README points to, and the usage shown by the
// repository's tests), not from the implementation:
//
//   * an annotated field takes the value of the FIRST LISTED source that has one, converted by type;
//   * un-annotated fields come from the JSON body exactly as without mapping;
//   * no source has a value: ReadHttpValueFallback -> look the field up in the JSON body by its key;
//     TracebackRequredOrRootFields -> root-level / required fields that are still missing are looked
//     up in the http values by their key; otherwise the requiredness truth table decides between
//     zero/default filling (Write*Field) and a missing-required error.
//
// Corners about which the documentation is silent are NOT generated (each exclusion is marked
// "EXCLUDED" below), instead of mirroring what the implementation happens to do.

import (
	"encoding/base64"
	"fmt"
	"math"
	"sort"
	"strconv"
	"strings"

	"github.com/cloudwego/dynamicgo/internal/simrt"
)

type hKind int

const (
	hkQuery hKind = iota
	hkPath
	hkHeader
	hkCookie
	hkForm
	hkBody
	hkRawBody
	hkRawURI
	hkNoBodyStruct
	hkHTTPCode
	nHKind
)

var hKindAnno = [nHKind]string{"api.query", "api.path", "api.header", "api.cookie", "api.form", "api.body", "api.raw_body", "api.raw_uri", "api.no_body_struct", "api.http_code"}
var hKindShort = [nHKind]string{"query", "path", "header", "cookie", "form", "body", "raw_body", "raw_uri", "no_body_struct", "http_code"}

type hAnno struct {
	Kind hKind
	Key  string
}

// bodyNotLast reports whether api.body is listed in front of another source.
func bodyNotLast(as []hAnno) bool {
	for i, a := range as {
		if a.Kind == hkBody && i != len(as)-1 {
			return true
		}
	}
	return false
}

func annoList(as []hAnno) string {
	var p []string
	for _, a := range as {
		p = append(p, hKindShort[a.Kind])
	}
	return strings.Join(p, ">")
}

// hSchema is a TSchema plus the http annotations of its fields.
type hSchema struct {
	Sch   *TSchema
	Root  *TStruct
	Annos map[*TField][]hAnno // lookups only (never iterated)
	// Fields lists every annotated field once, in a deterministic order.
	Fields []*TField
	NBS    map[*TStruct]bool // structs used through api.no_body_struct
	// BodyNotLast: some field lists api.body before another source (generator switch; the
	// annotation mapper of the library moves api.body behind the other sources).
	BodyNotLast bool
	KindsUsed   [nHKind]bool
}

func (s *hSchema) annos(f *TField) []hAnno { return s.Annos[f] }

type hGenOpts struct {
	NRoot        int
	AnnoPct      int
	OptionalOnly bool // un-annotated root fields are optional (empty-body worlds)
	AllowNBS     bool
	BodyNotLast  bool
	DeadHTTPCode bool
	Defaults     bool
	Containers   bool
	Nested       bool
	NoBodyKinds  bool // no api.body / api.form / api.raw_body (worlds with a lazily read body)
	NoRawBody    bool
	Aliases      bool
	NoB64        bool // conv.Options.NoBase64Binary
}

type hgen struct {
	t   *simrt.Tape
	o   hGenOpts
	s   *hSchema
	ctr int
	// usedKeys: annotation keys handed out so far, with the source kind they were handed out for
	usedKeys []hUsedKey
}

type hUsedKey struct {
	kind hKind
	key  string
}

const lowerAlpha = "abcdefghijklmnopqrstuvwxyz"

func (g *hgen) ident(prefix string) string {
	g.ctr++
	n := 1 + g.t.Intn(4, "h.ident.len")
	var sb strings.Builder
	sb.WriteString(prefix)
	for i := 0; i < n; i++ {
		sb.WriteByte(lowerAlpha[g.t.Intn(26, "h.ident.ch")])
	}
	fmt.Fprintf(&sb, "%d", g.ctr)
	return sb.String()
}

func (g *hgen) scalar() *TType {
	kinds := []byte{tSTRING, tI64, tI32, tBOOL, tDOUBLE, tBYTE, tI16, tSTRING, tSTRING}
	k := kinds[g.t.Intn(len(kinds), "h.scalar")]
	tt := &TType{Kind: k}
	// EXCLUDED: base64 binary values inside JSON documents. The native base64 decoder against the
	// output capacity is a known finding of C02 (design finding 1); binary fields are generated in
	// NoBase64Binary worlds, and otherwise only as annotated fields that are fed by http text values
	// (decoded on the Go side) and never by a JSON member - see annotate().
	if k == tSTRING && g.o.NoB64 && g.t.Chance(1, 5, "h.binary") {
		tt.Binary = true
	}
	return tt
}

func (g *hgen) leafStruct(prefix string, annotated bool, nbs bool) *TStruct {
	st := &TStruct{Name: g.ident(prefix)}
	nf := 1 + g.t.Intn(4, "h.nested.nf")
	id := 1
	for i := 0; i < nf; i++ {
		if g.t.Chance(1, 4, "h.nested.gap") {
			id += 1 + g.t.Intn(3, "h.nested.gap.n")
		}
		f := &TField{ID: id, Name: g.ident("n")}
		id++
		f.T = g.scalar()
		if !nbs && g.o.Containers && g.t.Chance(1, 6, "h.nested.list") {
			f.T = &TType{Kind: tLIST, Elem: g.scalar()}
		}
		if nbs && f.T.Binary {
			f.T.Binary = false
		}
		f.Req = g.t.Intn(3, "h.nested.req")
		if g.o.Defaults && f.Req != reqRequired && g.t.Chance(1, 4, "h.nested.default") {
			f.Default = g.defaultFor(f.T)
		}
		st.Fields = append(st.Fields, f)
		if annotated && (nbs || g.t.Chance(g.o.AnnoPct, 100, "h.nested.anno")) {
			g.annotate(f, true, nbs)
		}
	}
	if nbs {
		g.s.NBS[st] = true
	}
	g.s.Sch.Structs = append(g.s.Sch.Structs, st)
	return st
}

func (g *hgen) defaultFor(t *TType) *TVal {
	switch t.Kind {
	case tBOOL:
		return &TVal{T: t, B: true}
	case tBYTE:
		return &TVal{T: t, I: int64(1 + g.t.Intn(100, "h.def.i"))}
	case tI16, tI32, tI64:
		return &TVal{T: t, I: int64(1 + g.t.Intn(30000, "h.def.i"))}
	case tDOUBLE:
		return &TVal{T: t, D: float64(1+g.t.Intn(1000, "h.def.d")) / 8}
	case tSTRING:
		if t.Binary {
			return nil
		}
		return &TVal{T: t, S: []byte(g.ident("dv"))}
	}
	return nil
}

// annotate gives f a list of 1-3 http annotations (distinct kinds).
func (g *hgen) annotate(f *TField, nested bool, nbs bool) {
	t := g.t
	var keyed []hKind
	switch {
	case nbs:
		// fields of an api.no_body_struct struct are filled from non-body sources
		keyed = []hKind{hkQuery, hkPath, hkHeader, hkCookie}
	case f.T.Kind == tSTRUCT || f.T.Kind == tMAP:
		// JSON-encoded values: query / header / cookie as in the repository's TestJSONString, form
		// and body members as in TestPostFormBody / TestBodyFallbackToHttp.
		// EXCLUDED: complex values in url-path parameters (nowhere documented).
		keyed = []hKind{hkQuery, hkHeader, hkCookie, hkForm, hkBody}
	default:
		keyed = []hKind{hkQuery, hkPath, hkHeader, hkCookie, hkForm, hkBody}
	}
	if g.o.NoBodyKinds {
		var k2 []hKind
		for _, k := range keyed {
			if k != hkForm && k != hkBody {
				k2 = append(k2, k)
			}
		}
		keyed = k2
	}
	n := 1 + t.Intn(3, "h.anno.n")
	if n > len(keyed) {
		n = len(keyed)
	}
	// partial shuffle
	for i := 0; i < n; i++ {
		j := i + t.Intn(len(keyed)-i, "h.anno.pick")
		keyed[i], keyed[j] = keyed[j], keyed[i]
	}
	var as []hAnno
	for _, k := range keyed[:n] {
		a := hAnno{Kind: k, Key: g.ident("k")}
		// the same parameter name may be used in different places of a request by different fields: a key of
		// another source kind is reused now and then (every source kind has its own namespace)
		if k == hkQuery || k == hkForm || k == hkCookie || k == hkPath {
			var others []string
			for _, uk := range g.usedKeys {
				taken := false
				for _, u2 := range g.usedKeys {
					if u2.kind == k && u2.key == uk.key {
						taken = true // one field per (source kind, key)
					}
				}
				if uk.kind != k && !taken {
					others = append(others, uk.key)
				}
			}
			if len(others) > 0 && t.Chance(1, 6, "h.anno.sharedkey") {
				a.Key = others[t.Intn(len(others), "h.anno.sharedkey.which")]
			}
			g.usedKeys = append(g.usedKeys, hUsedKey{k, a.Key})
		}
		if k == hkBody && !nested && t.Chance(1, 2, "h.anno.body.ownkey") {
			a.Key = f.Key()
		}
		as = append(as, a)
	}
	// string fields may end their list with the raw body or the raw uri. They always "have a
	// value", so they are only ever listed last.
	// EXCLUDED: api.raw_body on non-string fields and in front of other sources (an empty raw body
	// "having a value" or not is not documented).
	if !nbs && f.T.Kind == tSTRING && !f.T.Binary && t.Chance(1, 5, "h.anno.raw") {
		if t.Chance(1, 2, "h.anno.rawuri") || g.o.NoBodyKinds || g.o.NoRawBody {
			as = append(as, hAnno{Kind: hkRawURI})
		} else {
			as = append(as, hAnno{Kind: hkRawBody})
		}
	}
	// api.body: listed last unless the world enables the body-not-last switch
	bodyAt := -1
	for i, a := range as {
		if a.Kind == hkBody {
			bodyAt = i
		}
	}
	if bodyAt >= 0 && bodyAt != len(as)-1 {
		if g.o.BodyNotLast {
			g.s.BodyNotLast = true
		} else {
			b := as[bodyAt]
			copy(as[bodyAt:], as[bodyAt+1:])
			as[len(as)-1] = b
			// keep raw_* behind everything
			if len(as) >= 2 && (as[len(as)-2].Kind == hkRawBody || as[len(as)-2].Kind == hkRawURI) {
				as[len(as)-1], as[len(as)-2] = as[len(as)-2], as[len(as)-1]
				// now body is in front of raw_*: that is "body not last" again; drop the raw source
				as = as[:len(as)-1]
			}
		}
	}
	// a response-only annotation in the list of a request field never has a value
	if g.o.DeadHTTPCode && f.T.Kind == tI32 && t.Chance(1, 3, "h.anno.httpcode") {
		p := t.Intn(len(as)+1, "h.anno.httpcode.at")
		as = append(as, hAnno{})
		copy(as[p+1:], as[p:])
		as[p] = hAnno{Kind: hkHTTPCode, Key: "status"}
		if g.o.BodyNotLast {
			// position relative to body does not matter for a dead source
		}
	}
	if !nbs && !g.o.NoB64 && f.T.Kind == tSTRING && t.Chance(1, 4, "h.anno.binary") {
		textOnly := true
		for _, a := range as {
			if a.Kind == hkBody || a.Kind == hkRawBody || a.Kind == hkRawURI {
				textOnly = false
			}
		}
		if textOnly {
			f.T.Binary = true
			f.Default = nil
		}
	}
	g.setAnnos(f, as)
}

func (g *hgen) setAnnos(f *TField, as []hAnno) {
	var parts []string
	if f.Alias != "" {
		parts = append(parts, fmt.Sprintf(`go.tag = 'json:"%s"'`, f.Alias))
	}
	for _, a := range as {
		parts = append(parts, fmt.Sprintf(`%s = "%s"`, hKindAnno[a.Kind], a.Key))
		g.s.KindsUsed[a.Kind] = true
	}
	f.Anno = " (" + strings.Join(parts, ", ") + ")"
	g.s.Annos[f] = as
	g.s.Fields = append(g.s.Fields, f)
}

func genHSchema(t *simrt.Tape, o hGenOpts) *hSchema {
	g := &hgen{t: t, o: o, s: &hSchema{Sch: &TSchema{}, Annos: map[*TField][]hAnno{}, NBS: map[*TStruct]bool{}}}
	var nested []*TStruct
	root := &TStruct{Name: g.ident("Root")}
	id := 1
	for i := 0; i < o.NRoot; i++ {
		if t.Chance(1, 5, "h.root.gap") {
			id += 1 + t.Intn(4, "h.root.gap.n")
		}
		f := &TField{ID: id, Name: g.ident("f")}
		id++
		shape := t.Intn(20, "h.root.shape")
		annotated := t.Chance(o.AnnoPct, 100, "h.root.anno")
		nbs := false
		switch {
		case shape < 12 || !o.Containers && shape < 17:
			f.T = g.scalar()
		case shape < 14:
			f.T = &TType{Kind: tLIST, Elem: g.scalar()}
		case shape == 14:
			f.T = &TType{Kind: tSET, Elem: &TType{Kind: []byte{tI32, tI64, tSTRING, tI16}[t.Intn(4, "h.set.elem")]}}
		case shape < 17:
			f.T = &TType{Kind: tMAP, Key: &TType{Kind: []byte{tSTRING, tI32, tI64, tSTRING}[t.Intn(4, "h.map.key")]}, Elem: g.scalar()}
		default:
			if !o.Nested {
				f.T = g.scalar()
				break
			}
			if o.AllowNBS && annotated && t.Chance(1, 3, "h.root.nbs") {
				nbs = true
				f.T = &TType{Kind: tSTRUCT, St: g.leafStruct("Nbs", true, true)}
				break
			}
			var st *TStruct
			if len(nested) > 0 && (len(nested) >= 2 || t.Chance(1, 2, "h.nested.reuse")) {
				st = nested[t.Intn(len(nested), "h.nested.which")]
			} else {
				st = g.leafStruct("In", true, false)
				nested = append(nested, st)
			}
			f.T = &TType{Kind: tSTRUCT, St: st}
			if !annotated && t.Chance(1, 4, "h.root.liststruct") {
				f.T = &TType{Kind: tLIST, Elem: f.T}
			}
		}
		f.Req = t.Intn(3, "h.root.req")
		if o.OptionalOnly && !annotated {
			f.Req = reqOptional
		}
		if o.Defaults && f.Req != reqRequired && t.Chance(1, 4, "h.root.default") && !(o.OptionalOnly && !annotated) {
			f.Default = g.defaultFor(f.T)
		}
		if o.Aliases && !annotated && t.Chance(1, 6, "h.root.alias") {
			f.Alias = g.ident("j")
			f.Anno = fmt.Sprintf(` (go.tag = 'json:"%s"')`, f.Alias)
		}
		root.Fields = append(root.Fields, f)
		if annotated {
			if nbs {
				g.setAnnos(f, []hAnno{{Kind: hkNoBodyStruct}})
			} else {
				g.annotate(f, false, false)
			}
		}
	}
	if t.Chance(1, 3, "h.root.shuffle") {
		for i := len(root.Fields) - 1; i > 0; i-- {
			j := t.Intn(i+1, "h.root.shuffle.j")
			root.Fields[i], root.Fields[j] = root.Fields[j], root.Fields[i]
		}
	}
	g.s.Sch.Structs = append(g.s.Sch.Structs, root)
	g.s.Root = root
	g.s.Sch.Root = &TType{Kind: tSTRUCT, St: root}
	g.s.Sch.IDL = renderIDL(g.s.Sch)
	return g.s
}

// ---------------------------------------------------------------------------------------------
// request model

type hSrcVal struct {
	Key  string
	Text string
	Val  *TVal
}

const (
	hbJSON = iota
	hbEmpty
	hbForm      // form body, no JSON document (jbytes empty)
	hbFormEmpty // form body, the JSON document handed to BinaryConv is "{}" (as in TestPostFormBody)
)

var hBodyNames = []string{"json", "empty", "form", "form+{}"}

type hRequest struct {
	Method   string
	Query    []hSrcVal
	Path     []hSrcVal
	Header   []hSrcVal
	Cookie   []hSrcVal
	Form     []hSrcVal
	BodyKind int
	BodyDoc  *TVal // model of the JSON document (root struct), nil when there is none
	// BodyExtra are root members of the JSON body that only serve api.body (not fields of the root struct)
	BodyExtra []hSrcVal
	Body      []byte // bytes delivered by the body reader
	JBytes    []byte // the JSON document handed to BinaryConv.Do/DoInto
	URI       string
	// RefillParams: the request object is built with the path parameters of an earlier request and gets the actual
	// ones through Params.Set afterwards (a server that reuses its request wrapper)
	RefillParams bool
	BodyWS       bool // the JSON body has insignificant whitespace and api.body reads from it
	HasNull      bool // some JSON member is null
	// EmptyJSONCT: an empty body is announced as application/json (the constructor then reads it)
	EmptyJSONCT bool
}

func findSrc(l []hSrcVal, key string, fold bool) *hSrcVal {
	for i := range l {
		if l[i].Key == key || fold && strings.EqualFold(l[i].Key, key) {
			return &l[i]
		}
	}
	return nil
}

// bodyMember is the api.body lookup: a member of the root JSON body, or a form value.
func (r *hRequest) bodyMember(key string) *hSrcVal {
	switch r.BodyKind {
	case hbJSON:
		if r.BodyDoc != nil {
			for _, fv := range r.BodyDoc.Fields {
				if fv.F != nil && fv.V != nil && fv.F.Key() == key {
					return &hSrcVal{Key: key, Val: fv.V}
				}
			}
		}
		return findSrc(r.BodyExtra, key, false)
	case hbForm, hbFormEmpty:
		return findSrc(r.Form, key, false)
	}
	return nil
}

func (r *hRequest) lookup(a hAnno) *hSrcVal {
	switch a.Kind {
	case hkQuery:
		return findSrc(r.Query, a.Key, false)
	case hkPath:
		return findSrc(r.Path, a.Key, false)
	case hkHeader:
		return findSrc(r.Header, a.Key, true)
	case hkCookie:
		return findSrc(r.Cookie, a.Key, false)
	case hkForm:
		if r.BodyKind == hbForm || r.BodyKind == hbFormEmpty {
			return findSrc(r.Form, a.Key, false)
		}
		return nil
	case hkBody:
		return r.bodyMember(a.Key)
	case hkRawBody:
		if len(r.Body) == 0 {
			return nil
		}
		t := &TType{Kind: tSTRING}
		return &hSrcVal{Text: string(r.Body), Val: &TVal{T: t, S: r.Body}}
	case hkRawURI:
		t := &TType{Kind: tSTRING}
		return &hSrcVal{Text: r.URI, Val: &TVal{T: t, S: []byte(r.URI)}}
	}
	return nil
}

// traceback is the TracebackRequredOrRootFields lookup of a field key in the http values. The
// generator populates at most one source per key, so no search order is assumed.
func (r *hRequest) traceback(key string) *hSrcVal {
	if v := findSrc(r.Path, key, false); v != nil {
		return v
	}
	if v := findSrc(r.Query, key, false); v != nil {
		return v
	}
	if v := findSrc(r.Header, key, true); v != nil {
		return v
	}
	if v := findSrc(r.Cookie, key, false); v != nil {
		return v
	}
	if r.BodyKind == hbFormEmpty {
		return findSrc(r.Form, key, false)
	}
	return nil
}

// ---------------------------------------------------------------------------------------------
// values and their http text encodings

type hvgen struct {
	t     *simrt.Tape
	vg    *vgen
	s     *hSchema
	noB64 bool
	// usedCommaBlank: a comma-form list<string> source held an element with a blank at its edge
	usedCommaBlank bool
	// body document generation
	presentPct    int
	annoMemberPct int
	nullPct       int
	unknownPct    int
	mapping       bool
	// keys that must not be generated as JSON members of the root (api.body own-key fields whose
	// source is unpopulated) / must be generated
	forceAbsent  map[*TField]bool
	forceMember  map[*TField]*TVal
	bodyWS       bool
	setOptBitmap bool
	wo           bool
	sawNull      bool
}

const safeChars = "abcdefghijklmnopqrstuvwxyzABCDEFGHIJKLMNOPQRSTUVWXYZ0123456789_.-"

var widePieces = []string{"a", "Z", "7", " ", "+", "=", "/", ":", "@", "!", "*", "(", ")", "~", "%", "&", "?", "#", "é", "中", "😀", "'", "<", ">", "|", "^", "$", "x y", "\"", "\\", ";", ","}

// str returns a non-empty string. class 0: cookie/comma safe ASCII; 1: anything printable.
func (g *hvgen) str(class int) []byte {
	n := 1 + sizeClass(g.t, "h.str.len", 40)
	b := make([]byte, 0, n+4)
	for len(b) < n {
		if class == 0 || g.t.Chance(2, 3, "h.str.safe") {
			b = append(b, safeChars[g.t.Intn(len(safeChars), "h.str.ch")])
		} else {
			b = append(b, widePieces[g.t.Intn(len(widePieces), "h.str.piece")]...)
		}
	}
	// no blank at either end (url/header transport trims are not the subject here)
	for len(b) > 0 && b[0] == ' ' {
		b = b[1:]
	}
	for len(b) > 0 && b[len(b)-1] == ' ' {
		b = b[:len(b)-1]
	}
	if len(b) == 0 {
		b = append(b, 'x')
	}
	return b
}

func (g *hvgen) leaf(t *TType, class int) *TVal {
	v := &TVal{T: t}
	switch t.Kind {
	case tBOOL:
		v.B = g.t.Chance(1, 2, "h.bool")
	case tBYTE, tI16, tI32, tI64:
		v.I = g.vg.intFor(t.Kind)
	case tDOUBLE:
		v.D = g.vg.floatVal()
	case tSTRING:
		if t.Binary && !g.noB64 {
			n := 1 + g.t.Intn(20, "h.bin.len")
			v.S = make([]byte, n)
			for i := range v.S {
				v.S[i] = byte(g.t.Draw(256, "h.bin.b"))
			}
		} else {
			v.S = g.str(class)
		}
	}
	return v
}

// value generates a model value of type t. Structs are generated as JSON objects (bodyStruct).
func (g *hvgen) value(t *TType, class int, depth int) *TVal {
	switch t.Kind {
	case tSTRUCT:
		return g.bodyStruct(t, false, depth+1)
	case tLIST, tSET:
		v := &TVal{T: t}
		n := g.t.Intn(5, "h.list.n")
		seen := map[string]bool{}
		for i := 0; i < n; i++ {
			e := g.value(t.Elem, class, depth+1)
			if t.Kind == tSET {
				k := string(encodeThrift(nil, e))
				if seen[k] {
					continue
				}
				seen[k] = true
			}
			v.List = append(v.List, e)
		}
		return v
	case tMAP:
		v := &TVal{T: t}
		n := g.t.Intn(4, "h.map.n")
		seen := map[string]bool{}
		for i := 0; i < n; i++ {
			k := g.leaf(t.Key, 0)
			ks := string(encodeThrift(nil, k))
			if seen[ks] {
				continue
			}
			seen[ks] = true
			v.Keys = append(v.Keys, k)
			v.Vals = append(v.Vals, g.value(t.Elem, class, depth+1))
		}
		return v
	}
	return g.leaf(t, class)
}

// bodyStruct generates a JSON object for a struct type: un-annotated fields mostly present,
// annotated fields sometimes present (they must be ignored unless the fallback applies), a few
// null and unknown members.
func (g *hvgen) bodyStruct(t *TType, root bool, depth int) *TVal {
	st := t.St
	v := &TVal{T: t}
	idx := make([]int, len(st.Fields))
	for i := range idx {
		idx[i] = i
	}
	if g.t.Chance(1, 2, "h.body.order") {
		for i := len(idx) - 1; i > 0; i-- {
			j := g.t.Intn(i+1, "h.body.order.j")
			idx[i], idx[j] = idx[j], idx[i]
		}
	}
	for _, i := range idx {
		f := st.Fields[i]
		annotated := g.mapping && len(g.s.Annos[f]) > 0
		if root {
			if mv := g.forceMember[f]; mv != nil {
				v.Fields = append(v.Fields, TFieldVal{F: f, V: mv})
				continue
			}
			if g.forceAbsent[f] {
				continue
			}
		}
		p := g.presentPct
		if annotated {
			p = g.annoMemberPct
		} else if f.Req == reqRequired {
			p = 85 + g.presentPct*15/100
		}
		if depth > 2 && f.T.Kind == tSTRUCT {
			p = 0
		}
		if f.T.Kind == tSTRING && f.T.Binary && !g.noB64 {
			p = 0 // no base64 text inside JSON documents (see hgen.scalar)
		}
		if g.t.Chance(p, 100, "h.body.present") {
			// EXCLUDED: a null member of an optional field while WriteOptionalField is on: whether
			// "null" counts as "not given" for an optional field that is tracked (SetOptionalBitmap, or
			// an annotated field under ReadHttpValueFallback) is the null-vs-absent question of C16.
			if g.t.Chance(g.nullPct, 100, "h.body.null") && !(f.Req == reqOptional && (g.setOptBitmap || g.wo)) {
				g.sawNull = true
				v.Fields = append(v.Fields, TFieldVal{F: f, V: nil})
			} else {
				v.Fields = append(v.Fields, TFieldVal{F: f, V: g.value(f.T, 1, depth)})
			}
		}
		if g.unknownPct > 0 && g.t.Chance(g.unknownPct, 100, "h.body.unknown") {
			v.Fields = append(v.Fields, TFieldVal{UnknownKey: "unk_" + fmt.Sprint(g.t.Intn(1000, "h.unk.k")), UnknownJSON: unknownJSONs[g.t.Intn(len(unknownJSONs), "h.unk.v")]})
		}
	}
	// a null last member is the precondition of a known native finding of C02; not the subject here
	for n := len(v.Fields); n > 0 && v.Fields[n-1].F != nil && v.Fields[n-1].V == nil; n = len(v.Fields) {
		v.Fields = v.Fields[:n-1]
	}
	return v
}

func scalarText(v *TVal, noB64 bool) string {
	switch v.T.Kind {
	case tBOOL:
		if v.B {
			return "true"
		}
		return "false"
	case tBYTE, tI16, tI32, tI64:
		return strconv.FormatInt(v.I, 10)
	case tDOUBLE:
		return strconv.FormatFloat(v.D, 'g', -1, 64)
	case tSTRING:
		if v.T.Binary && !noB64 {
			return base64.StdEncoding.EncodeToString(v.S)
		}
		return string(v.S)
	}
	return ""
}

func isScalar(t *TType) bool {
	switch t.Kind {
	case tSTRUCT, tMAP, tLIST, tSET:
		return false
	}
	return true
}

// source generates a value for field type t and its http text. Lists of scalars are either
// comma-separated or a JSON array; maps and structs are JSON text.
func (g *hvgen) source(t *TType, key string) hSrcVal {
	sv := hSrcVal{Key: key}
	switch {
	case isScalar(t):
		sv.Val = g.leaf(t, g.t.Intn(2, "h.src.class"))
		sv.Text = scalarText(sv.Val, g.noB64)
		switch t.Kind {
		case tBYTE, tI16, tI32, tI64:
			// decimal text with leading zeros is still decimal
			if g.t.Chance(1, 8, "h.src.zeropad") {
				if strings.HasPrefix(sv.Text, "-") {
					sv.Text = "-00" + sv.Text[1:]
				} else {
					sv.Text = "00" + sv.Text
				}
			}
		}
	case (t.Kind == tLIST || t.Kind == tSET) && isScalar(t.Elem) && !t.Elem.Binary && g.t.Chance(1, 2, "h.src.comma"):
		v := &TVal{T: t}
		n := 1 + g.t.Intn(4, "h.src.comma.n")
		var parts []string
		seen := map[string]bool{}
		for i := 0; i < n; i++ {
			e := g.leaf(t.Elem, 0)
			tx := scalarText(e, g.noB64)
			if t.Kind == tSET {
				if seen[tx] {
					continue
				}
				seen[tx] = true
			}
			v.List = append(v.List, e)
			parts = append(parts, tx)
		}
		// blanks next to a comma belong to the element ("Smith, John" holds " John"); never at either end of the whole
		// value, which transports trim
		if t.Elem.Kind == tSTRING && len(parts) > 1 && g.t.Chance(1, 3, "h.src.comma.blank") {
			i := g.t.Intn(len(parts), "h.src.comma.blank.at")
			switch {
			case i == 0:
				parts[i] += " "
			case i == len(parts)-1:
				parts[i] = " " + parts[i]
			default:
				parts[i] = []string{" " + parts[i], parts[i] + " ", " ", "  " + parts[i] + " "}[g.t.Intn(4, "h.src.comma.blank.how")]
			}
			v.List[i].S = []byte(parts[i])
			g.usedCommaBlank = true
		}
		sv.Val = v
		sv.Text = strings.Join(parts, ",")
	default:
		sv.Val = g.value(t, 1, 1)
		st := &jsonStyle{t: g.t, WS: g.t.Intn(2, "h.src.ws"), Esc: 0, Num: 0, NoBase64: g.noB64}
		sv.Text = string(st.render(sv.Val))
	}
	return sv
}

func cookieSafe(s string) bool {
	if s == "" {
		return false
	}
	for i := 0; i < len(s); i++ {
		c := s[i]
		if c <= 0x20 || c >= 0x7f || c == '"' || c == ';' || c == '\\' {
			return false
		}
	}
	return true
}

// ---------------------------------------------------------------------------------------------
// the decision-table oracle

type hOpts struct {
	Mapping, RHVF, Traceback bool
	WD, WR, WO               bool
	NoB64, Disallow          bool
	SetOptBitmap, UseDefault bool
}

type hErrKind int

const (
	heNone hErrKind = iota
	heMissingRequired
	heUnknownField
)

var hErrNames = []string{"none", "missing-required", "unknown-field"}

type hEval struct {
	s *hSchema
	r *hRequest
	o hOpts
	// relaxed[struct value][field id]: the field may be absent or, if present, must have the given value
	relaxed map[*TVal]map[int]bool
	// provenance of each expected root/nested field value (for triage facts)
	used                                                                     [nHKind]int
	usedFallbackBody, usedTraceback, usedZero, usedNoValue, usedFormFallback int
	errField                                                                 *TField
}

func hZeroVal(t *TType) *TVal { return &TVal{T: t} }

func (e *hEval) firstSource(f *TField, as []hAnno) (*hSrcVal, hKind) {
	for _, a := range as {
		if a.Kind == hkNoBodyStruct {
			return &hSrcVal{}, hkNoBodyStruct
		}
		if sv := e.r.lookup(a); sv != nil {
			return sv, a.Kind
		}
	}
	return nil, 0
}

// requiredness is the truth table for a field that has no value anywhere.
func (e *hEval) requiredness(out *TVal, f *TField, tracked bool) hErrKind {
	write := false
	switch f.Req {
	case reqRequired:
		if !e.o.WR {
			e.errField = f
			return heMissingRequired
		}
		write = true
	case reqDefault:
		write = e.o.WD
	case reqOptional:
		write = tracked && e.o.WO
	}
	if write {
		e.usedZero++
		if f.Default != nil && e.o.UseDefault {
			out.Fields = append(out.Fields, TFieldVal{F: f, V: f.Default})
		} else {
			out.Fields = append(out.Fields, TFieldVal{F: f, V: hZeroVal(f.T)})
		}
	} else {
		e.usedNoValue++
	}
	return heNone
}

func (e *hEval) evalValue(t *TType, v *TVal) (*TVal, hErrKind) {
	switch t.Kind {
	case tSTRUCT:
		return e.evalStruct(t, v, false, false)
	case tLIST, tSET:
		o := &TVal{T: t}
		for _, el := range v.List {
			x, er := e.evalValue(t.Elem, el)
			if er != heNone {
				return nil, er
			}
			o.List = append(o.List, x)
		}
		return o, heNone
	case tMAP:
		o := &TVal{T: t}
		for i := range v.Keys {
			x, er := e.evalValue(t.Elem, v.Vals[i])
			if er != heNone {
				return nil, er
			}
			o.Keys = append(o.Keys, v.Keys[i])
			o.Vals = append(o.Vals, x)
		}
		return o, heNone
	}
	return v, heNone
}

// evalStruct computes the expected Thrift struct for one JSON object obj (nil: no JSON document).
func (e *hEval) evalStruct(t *TType, obj *TVal, root bool, nobody bool) (*TVal, hErrKind) {
	st := t.St
	out := &TVal{T: t}
	var firstErr hErrKind
	fail := func(k hErrKind) {
		if firstErr == heNone {
			firstErr = k
		}
	}
	member := func(f *TField) *TVal {
		if obj == nil {
			return nil
		}
		for _, fv := range obj.Fields {
			if fv.F == f && fv.V != nil {
				return fv.V
			}
		}
		return nil
	}
	if obj != nil && e.o.Disallow {
		for _, fv := range obj.Fields {
			if fv.F == nil {
				fail(heUnknownField)
			}
		}
	}
	for _, f := range st.Fields {
		var as []hAnno
		if e.o.Mapping {
			as = e.s.Annos[f]
		}
		if len(as) > 0 {
			sv, kind := e.firstSource(f, as)
			if sv != nil {
				if root {
					e.used[kind]++
				}
				if kind == hkNoBodyStruct {
					out.Fields = append(out.Fields, TFieldVal{F: f, V: e.evalNoBodyStruct(f)})
					continue
				}
				x, er := e.evalValue(f.T, sv.Val)
				if er != heNone {
					fail(er)
					continue
				}
				out.Fields = append(out.Fields, TFieldVal{F: f, V: x})
				continue
			}
			if nobody && root && e.o.RHVF && !e.o.WD && f.Req == reqDefault && e.r.BodyKind == hbForm {
				// ReadHttpValueFallback: "fallback to http body" - the body is a form, its member named by the
				// field's own key is the fallback (see genRequest for the cells that are left out)
				if sv := findSrc(e.r.Form, f.Key(), false); sv != nil {
					e.usedFormFallback++
					x, er := e.evalValue(f.T, sv.Val)
					if er != heNone {
						fail(er)
						continue
					}
					out.Fields = append(out.Fields, TFieldVal{F: f, V: x})
					continue
				}
			}
			if nobody || !e.o.RHVF {
				// no source has a value and there is no body fallback: truth table
				if er := e.requiredness(out, f, true); er != heNone {
					fail(er)
				}
				continue
			}
		}
		// the JSON body (un-annotated fields, and annotated ones under ReadHttpValueFallback)
		if m := member(f); m != nil {
			if len(as) > 0 {
				e.usedFallbackBody++
			}
			x, er := e.evalValue(f.T, m)
			if er != heNone {
				fail(er)
				continue
			}
			out.Fields = append(out.Fields, TFieldVal{F: f, V: x})
			continue
		}
		if e.o.Mapping && e.o.RHVF && e.o.Traceback && !nobody && (root || f.Req == reqRequired) {
			if sv := e.r.traceback(f.Key()); sv != nil {
				e.usedTraceback++
				x, er := e.evalValue(f.T, sv.Val)
				if er != heNone {
					fail(er)
					continue
				}
				out.Fields = append(out.Fields, TFieldVal{F: f, V: x})
				continue
			}
		}
		tracked := len(as) > 0 || f.Req != reqOptional || e.o.SetOptBitmap
		if nobody && len(as) == 0 {
			// EXCLUDED: un-annotated fields under an empty body are only generated as optional
			// fields without bitmap tracking; they are never written.
			continue
		}
		if er := e.requiredness(out, f, tracked); er != heNone {
			fail(er)
		}
	}
	return out, firstErr
}

// evalNoBodyStruct: the struct is filled from the non-body sources of its annotated fields only.
// A member without any value: the documentation does not say whether it is omitted or zero-filled
// (the write options are not consulted by the implementation) - both are accepted.
func (e *hEval) evalNoBodyStruct(f *TField) *TVal {
	out := &TVal{T: f.T}
	rel := map[int]bool{}
	for _, nf := range f.T.St.Fields {
		as := e.s.Annos[nf]
		if len(as) == 0 {
			continue
		}
		if sv, _ := e.firstSource(nf, as); sv != nil && sv.Val != nil {
			out.Fields = append(out.Fields, TFieldVal{F: nf, V: sv.Val})
			continue
		}
		rel[nf.ID] = true
		if nf.Default != nil && e.o.UseDefault {
			out.Fields = append(out.Fields, TFieldVal{F: nf, V: nf.Default})
		} else {
			out.Fields = append(out.Fields, TFieldVal{F: nf, V: hZeroVal(nf.T)})
		}
	}
	e.relaxed[out] = rel
	return out
}

// ---------------------------------------------------------------------------------------------
// harness-owned Thrift binary decoder (schema driven) and comparison

type decIssue struct {
	Kind   string // duplicate-field, unexpected-field, malformed-output
	Path   string
	Detail string
}

type tdec struct {
	b      []byte
	p      int
	issues []decIssue
	bad    bool
}

func (d *tdec) need(n int, path string) bool {
	if d.bad {
		return false
	}
	if n < 0 || d.p+n > len(d.b) {
		d.bad = true
		d.issues = append(d.issues, decIssue{"malformed-output", path, fmt.Sprintf("truncated at %d (+%d of %d)", d.p, n, len(d.b))})
		return false
	}
	return true
}

func (d *tdec) decode(t *TType, path string, depth int) *TVal {
	v := &TVal{T: t}
	if depth > 64 {
		d.bad = true
		return v
	}
	switch t.Kind {
	case tBOOL:
		if d.need(1, path) {
			v.B = d.b[d.p] != 0
			if d.b[d.p] > 1 {
				d.issues = append(d.issues, decIssue{"malformed-output", path, fmt.Sprintf("bool byte %d", d.b[d.p])})
			}
			d.p++
		}
	case tBYTE:
		if d.need(1, path) {
			v.I = int64(int8(d.b[d.p]))
			d.p++
		}
	case tI16:
		if d.need(2, path) {
			v.I = int64(int16(uint16(d.b[d.p])<<8 | uint16(d.b[d.p+1])))
			d.p += 2
		}
	case tI32:
		if d.need(4, path) {
			v.I = int64(int32(be32(d.b[d.p:])))
			d.p += 4
		}
	case tI64:
		if d.need(8, path) {
			v.I = int64(be64(d.b[d.p:]))
			d.p += 8
		}
	case tDOUBLE:
		if d.need(8, path) {
			v.D = math.Float64frombits(be64(d.b[d.p:]))
			d.p += 8
		}
	case tSTRING:
		if d.need(4, path) {
			n := int(int32(be32(d.b[d.p:])))
			d.p += 4
			if d.need(n, path) {
				v.S = append([]byte{}, d.b[d.p:d.p+n]...)
				d.p += n
			}
		}
	case tLIST, tSET:
		if d.need(5, path) {
			et := d.b[d.p]
			n := int(int32(be32(d.b[d.p+1:])))
			d.p += 5
			if et != t.Elem.Kind {
				d.bad = true
				d.issues = append(d.issues, decIssue{"malformed-output", path, fmt.Sprintf("element type %d, schema says %d", et, t.Elem.Kind)})
				return v
			}
			if n < 0 || n > len(d.b) {
				d.bad = true
				d.issues = append(d.issues, decIssue{"malformed-output", path, fmt.Sprintf("list size %d", n)})
				return v
			}
			for i := 0; i < n && !d.bad; i++ {
				v.List = append(v.List, d.decode(t.Elem, fmt.Sprintf("%s[%d]", path, i), depth+1))
			}
		}
	case tMAP:
		if d.need(6, path) {
			kt, et := d.b[d.p], d.b[d.p+1]
			n := int(int32(be32(d.b[d.p+2:])))
			d.p += 6
			if kt != t.Key.Kind || et != t.Elem.Kind {
				d.bad = true
				d.issues = append(d.issues, decIssue{"malformed-output", path, fmt.Sprintf("map types %d/%d, schema says %d/%d", kt, et, t.Key.Kind, t.Elem.Kind)})
				return v
			}
			if n < 0 || n > len(d.b) {
				d.bad = true
				d.issues = append(d.issues, decIssue{"malformed-output", path, fmt.Sprintf("map size %d", n)})
				return v
			}
			for i := 0; i < n && !d.bad; i++ {
				v.Keys = append(v.Keys, d.decode(t.Key, fmt.Sprintf("%s{key %d}", path, i), depth+1))
				v.Vals = append(v.Vals, d.decode(t.Elem, fmt.Sprintf("%s{val %d}", path, i), depth+1))
			}
		}
	case tSTRUCT:
		seen := map[int]bool{}
		for !d.bad {
			if !d.need(1, path) {
				break
			}
			ft := d.b[d.p]
			d.p++
			if ft == 0 {
				break
			}
			if !d.need(2, path) {
				break
			}
			id := int(int16(uint16(d.b[d.p])<<8 | uint16(d.b[d.p+1])))
			d.p += 2
			f := t.St.ByID(id)
			fp := fmt.Sprintf("%s.%d", path, id)
			if f == nil {
				d.bad = true
				d.issues = append(d.issues, decIssue{"unexpected-field", fp, fmt.Sprintf("field id %d (wire type %d) is not in struct %s", id, ft, t.St.Name)})
				break
			}
			fp = fmt.Sprintf("%s.%d(%s)", path, id, f.Name)
			if ft != f.T.Kind {
				d.bad = true
				d.issues = append(d.issues, decIssue{"malformed-output", fp, fmt.Sprintf("wire type %d, schema says %d", ft, f.T.Kind)})
				break
			}
			fv := d.decode(f.T, fp, depth+1)
			if seen[id] {
				d.issues = append(d.issues, decIssue{"duplicate-field", fp, fmt.Sprintf("field id %d written more than once", id)})
				continue
			}
			seen[id] = true
			v.Fields = append(v.Fields, TFieldVal{F: f, V: fv})
		}
	}
	return v
}

func be32(b []byte) uint32 {
	return uint32(b[0])<<24 | uint32(b[1])<<16 | uint32(b[2])<<8 | uint32(b[3])
}
func be64(b []byte) uint64 { return uint64(be32(b))<<32 | uint64(be32(b[4:])) }

// decodeOutput decodes a complete struct encoding.
func decodeOutput(b []byte, t *TType) (*TVal, []decIssue) {
	d := &tdec{b: b}
	v := d.decode(t, "$", 0)
	if !d.bad && d.p != len(b) {
		d.issues = append(d.issues, decIssue{"malformed-output", "$", fmt.Sprintf("%d trailing bytes after the struct", len(b)-d.p)})
	}
	return v, d.issues
}

type cmpDiff struct {
	Kind   string // wrong-value, missing-field, unexpected-field
	Path   string
	Detail string
	F      *TField // innermost field
	Got    *TVal
	Chain  []*TField // fields on the path, outermost first
}

// canon re-encodes a decoded/expected tree canonically: struct fields by ascending id, map entries
// by encoded key.
func canon(b []byte, v *TVal) []byte {
	switch v.T.Kind {
	case tSTRUCT:
		fs := append([]TFieldVal(nil), v.Fields...)
		sort.SliceStable(fs, func(i, j int) bool { return fs[i].F.ID < fs[j].F.ID })
		for _, fv := range fs {
			b = append(b, fv.F.T.Kind, byte(fv.F.ID>>8), byte(fv.F.ID))
			b = canon(b, fv.V)
		}
		return append(b, 0)
	case tLIST, tSET:
		b = append(b, v.T.Elem.Kind, byte(len(v.List)>>24), byte(len(v.List)>>16), byte(len(v.List)>>8), byte(len(v.List)))
		for _, e := range v.List {
			b = canon(b, e)
		}
		return b
	case tMAP:
		type ent struct{ k, v []byte }
		es := make([]ent, len(v.Keys))
		for i := range v.Keys {
			es[i] = ent{canon(nil, v.Keys[i]), canon(nil, v.Vals[i])}
		}
		sort.SliceStable(es, func(i, j int) bool { return string(es[i].k) < string(es[j].k) })
		n := len(es)
		b = append(b, v.T.Key.Kind, v.T.Elem.Kind, byte(n>>24), byte(n>>16), byte(n>>8), byte(n))
		for _, e := range es {
			b = append(b, e.k...)
			b = append(b, e.v...)
		}
		return b
	}
	return encodeThrift(b, v)
}

func showVal(v *TVal) string {
	if v == nil {
		return "<nil>"
	}
	b := canon(nil, v)
	if isScalar(v.T) {
		switch v.T.Kind {
		case tSTRING:
			return fmt.Sprintf("%q", clip(v.S, 80))
		case tDOUBLE:
			return fmt.Sprintf("%v", v.D)
		case tBOOL:
			return fmt.Sprint(v.B)
		default:
			return fmt.Sprint(v.I)
		}
	}
	return fmt.Sprintf("%x", clipb(b, 80))
}

// compareTrees returns the first difference between the expected and the decoded tree.
func compareTrees(exp, got *TVal, path string, relaxed map[*TVal]map[int]bool) *cmpDiff {
	switch exp.T.Kind {
	case tSTRUCT:
		rel := relaxed[exp]
		for _, ef := range exp.Fields {
			var g *TVal
			for _, gf := range got.Fields {
				if gf.F.ID == ef.F.ID {
					g = gf.V
				}
			}
			fp := fmt.Sprintf("%s.%d(%s)", path, ef.F.ID, ef.F.Name)
			if g == nil {
				if rel[ef.F.ID] {
					continue
				}
				return &cmpDiff{Kind: "missing-field", Path: fp, Detail: "expected " + showVal(ef.V), F: ef.F, Chain: []*TField{ef.F}}
			}
			if d := compareTrees(ef.V, g, fp, relaxed); d != nil {
				if d.F == nil {
					d.F = ef.F
				}
				d.Chain = append([]*TField{ef.F}, d.Chain...)
				return d
			}
		}
		for _, gf := range got.Fields {
			found := false
			for _, ef := range exp.Fields {
				if ef.F.ID == gf.F.ID {
					found = true
				}
			}
			if !found {
				return &cmpDiff{Kind: "unexpected-field", Path: fmt.Sprintf("%s.%d(%s)", path, gf.F.ID, gf.F.Name), Detail: "got " + showVal(gf.V) + " but the field must be absent", F: gf.F, Got: gf.V, Chain: []*TField{gf.F}}
			}
		}
		return nil
	case tLIST, tSET:
		if len(exp.List) != len(got.List) {
			return &cmpDiff{Kind: "wrong-value", Path: path, Detail: fmt.Sprintf("list length %d, expected %d", len(got.List), len(exp.List)), Got: got}
		}
		for i := range exp.List {
			if d := compareTrees(exp.List[i], got.List[i], fmt.Sprintf("%s[%d]", path, i), relaxed); d != nil {
				return d
			}
		}
		return nil
	case tMAP:
		if len(exp.Keys) != len(got.Keys) {
			return &cmpDiff{Kind: "wrong-value", Path: path, Detail: fmt.Sprintf("map size %d, expected %d", len(got.Keys), len(exp.Keys)), Got: got}
		}
		for i := range exp.Keys {
			ek := string(canon(nil, exp.Keys[i]))
			j := -1
			for k := range got.Keys {
				if string(canon(nil, got.Keys[k])) == ek {
					j = k
				}
			}
			if j < 0 {
				return &cmpDiff{Kind: "wrong-value", Path: path, Detail: "map key " + showVal(exp.Keys[i]) + " missing", Got: got}
			}
			if d := compareTrees(exp.Vals[i], got.Vals[j], fmt.Sprintf("%s{%s}", path, showVal(exp.Keys[i])), relaxed); d != nil {
				return d
			}
		}
		return nil
	}
	if string(encodeThrift(nil, exp)) != string(encodeThrift(nil, got)) {
		return &cmpDiff{Kind: "wrong-value", Path: path, Detail: fmt.Sprintf("got %s, expected %s", showVal(got), showVal(exp)), Got: got}
	}
	return nil
}
