package main

import (
	"bytes"
	"context"
	"fmt"
	pgeneric "github.com/cloudwego/dynamicgo/proto/generic"
	"reflect"
	"strconv"
	"strings"
	"unsafe"

	"github.com/cloudwego/dynamicgo/conv"
	"github.com/cloudwego/dynamicgo/conv/j2p"
	"github.com/cloudwego/dynamicgo/conv/j2t"
	"github.com/cloudwego/dynamicgo/conv/p2j"
	"github.com/cloudwego/dynamicgo/conv/t2j"
	dhttp "github.com/cloudwego/dynamicgo/http"
	"github.com/cloudwego/dynamicgo/internal/simrt"
	"github.com/cloudwego/dynamicgo/proto"
	"github.com/cloudwego/dynamicgo/thrift"
	"github.com/cloudwego/dynamicgo/thrift/generic"
)

func init() { register("C12", runC12) }

// ---- shared state of a C12 world: everything the tasks share is read-only for the harness

type c12Shared struct {
	rootT   *TType
	desc    *thrift.TypeDescriptor
	desc2   *thrift.TypeDescriptor
	jsons   [][]byte // in read-only pages
	msgs    [][]byte // in read-only pages
	vals    []*TVal
	j2tConv *j2t.BinaryConv
	t2jConv *t2j.BinaryConv
	gopts   *generic.Options
	lookups []string
	// a container- or scalar-typed member of each document as a value of its own (cutting a non-struct root)
	memberMsgs  [][]byte
	memberDesc  []*thrift.TypeDescriptor
	memberDesc2 []*thrift.TypeDescriptor
	// exception conversion (t2j ConvertException): response descriptor + a message whose exception field is set
	respDesc *thrift.TypeDescriptor
	excMsg   []byte
	excConv  *t2j.BinaryConv
	// http-mapping on an empty body: values come from the query string
	httpConv *j2t.BinaryConv
	httpURL  string
	// http-mapping over a JSON body that lacks some root fields: they are traced back to the request
	// (query), and a call fails in the Go-side handler when a required one is found nowhere
	httpBodyConv *j2t.BinaryConv
	httpBodies   [][]byte
	// protobuf converters on a shared descriptor
	pdesc       *proto.TypeDescriptor
	pbMsgs      [][]byte
	pbFieldNums []int
	// an edit applied to a task-private copy of a message (only the descriptor is shared): path + new node per doc
	pbSetPaths [][]pgeneric.Path
	pbSetNodes []pgeneric.Node
	pbJSONs    [][]byte
	p2jConv    *p2j.BinaryConv
	j2pConv    *j2p.BinaryConv
}

type c12Op struct {
	Kind int
	Doc  int
	Path []generic.Path
	Cut  int // >0: the input is truncated to Cut bytes (a failing call)
	Cap  int
	Rec  bool
	Desc string
}

const (
	opJ2TDo = iota
	opJ2TDoInto
	opT2JDo
	opT2JDoInto
	opGetByPath
	opChildren
	opLoadMarshal
	opMarshalTo
	opDescLookup
	opInterface
	opT2JException
	opHTTPEmptyBody
	opP2J
	opJ2P
	opHTTPBody
	opPBLoadMarshal
	opPBInterface
	opPBFields
	opPBSet
	opMarshalToMember
	opDescToPathNode
	opMarshalUnloaded
	opReadAnyCopy
	nC12Ops
)

var c12OpNames = [nC12Ops]string{"j2t.Do", "j2t.DoInto", "t2j.Do", "t2j.DoInto", "GetByPath", "Children", "Load+Marshal", "MarshalTo", "desc-lookups", "Interface", "t2j.Do(ConvertException)", "j2t.Do(http-mapping, empty body)", "p2j.Do", "j2p.Do", "j2t.Do(http-mapping, body with missing root fields)", "pb.Load+Marshal", "pb.Interface", "pb.Fields+GetMany", "pb.SetByPath (private copy)", "MarshalTo of a non-struct member value", "DescriptorToPathNode", "Marshal of an unloaded PathNode", "ReadAnyWithDesc(copyString)"}

type c12Result struct {
	Out []byte
	Err string
	// Keep is the error VALUE returned by the library (its text must stay intact like any other result)
	Keep error
}

func (r c12Result) equal(o c12Result) bool { return r.Err == o.Err && bytes.Equal(r.Out, o.Out) }

// exec runs one operation. It touches only the shared read-only state, its arguments and memory it
// allocates itself, so it is safe to call from any task.
func (s *c12Shared) exec(op *c12Op) (res c12Result) {
	ctx := context.Background()
	defer func() {
		if r := recover(); r != nil {
			if _, ok := r.(simrt.StepLimitExceeded); ok {
				panic(r) // a runaway loop is a violation of its own, not an operation outcome
			}
			res.Err = fmt.Sprintf("PANIC: %v", r)
		}
	}()
	input := func(all []byte) []byte {
		if op.Cut > 0 && op.Cut < len(all) {
			return append([]byte{}, all[:op.Cut]...)
		}
		return all
	}
	seterr := func(err error) {
		if err != nil {
			res.Err = errClass(err)
		}
	}
	switch op.Kind {
	case opJ2TDo:
		out, err := s.j2tConv.Do(ctx, s.desc, input(s.jsons[op.Doc]))
		res.Out = out
		seterr(err)
	case opJ2TDoInto:
		buf := make([]byte, 0, op.Cap)
		err := s.j2tConv.DoInto(ctx, s.desc, input(s.jsons[op.Doc]), &buf)
		res.Out = buf
		seterr(err)
		if err != nil {
			res.Out = nil
		}
	case opT2JDo:
		out, err := s.t2jConv.Do(ctx, s.desc, input(s.msgs[op.Doc]))
		res.Out = out
		seterr(err)
	case opT2JDoInto:
		buf := make([]byte, 0, op.Cap)
		err := s.t2jConv.DoInto(ctx, s.desc, input(s.msgs[op.Doc]), &buf)
		res.Out = buf
		seterr(err)
		if err != nil {
			res.Out = nil
		}
	case opGetByPath:
		v := generic.NewValue(s.desc, input(s.msgs[op.Doc]))
		g := v.GetByPath(op.Path...)
		if g.IsError() {
			res.Err = "error-node"
		} else {
			res.Out = append([]byte{byte(g.Type())}, g.Raw()...)
		}
	case opChildren:
		n := generic.NewNode(thrift.Type(s.rootT.Kind), input(s.msgs[op.Doc]))
		var out []generic.PathNode
		err := n.Children(&out, op.Rec, s.gopts)
		seterr(err)
		if err == nil {
			res.Out = flattenTree(nil, out)
		}
	case opLoadMarshal:
		pn := generic.NewPathNode()
		pn.Node = generic.NewNode(thrift.Type(s.rootT.Kind), input(s.msgs[op.Doc]))
		err := pn.Load(op.Rec, s.gopts)
		seterr(err)
		if err == nil {
			out, err := pn.Marshal(s.gopts)
			res.Out = out
			seterr(err)
		}
		generic.FreePathNode(pn)
	case opMarshalTo:
		v := generic.NewValue(s.desc, input(s.msgs[op.Doc]))
		out, err := v.MarshalTo(s.desc2, s.gopts)
		res.Out = out
		seterr(err)
	case opMarshalToMember:
		k := op.Doc
		if k >= len(s.memberMsgs) || s.memberMsgs[k] == nil {
			break
		}
		v := generic.NewValue(s.memberDesc[k], input(s.memberMsgs[k]))
		out, err := v.MarshalTo(s.memberDesc2[k], s.gopts)
		res.Out = out
		seterr(err)
	case opDescToPathNode:
		// builds a tree of empty values from the shared descriptor, under tape-chosen write options
		var pn generic.PathNode
		o := &generic.Options{DescriptorToPathNodeWriteDefualt: op.Rec, DescriptorToPathNodeWriteOptional: op.Cap%2 == 0,
			DescriptorToPathNodeMaxDepth: 3, DescriptorToPathNodeArraySize: op.Cap % 3, DescriptorToPathNodeMapSize: op.Cap % 2}
		err := generic.DescriptorToPathNode(s.desc, &pn, o)
		seterr(err)
		if err == nil {
			out, err := pn.Marshal(s.gopts)
			res.Out = out
			seterr(err)
		}
	case opMarshalUnloaded:
		// a node that was never loaded marshals as the value it carries - into memory of its own
		in := input(s.msgs[op.Doc])
		pn := generic.PathNode{Node: generic.NewNode(thrift.Type(s.rootT.Kind), in)}
		out, err := pn.Marshal(s.gopts)
		res.Out = out
		seterr(err)
		if err == nil && overlaps(out, in) {
			res.Err = "RESULT-ALIASES-INPUT " + res.Err
		}
	case opReadAnyCopy:
		// with copyString set, nothing in the result refers to the input: scribbling over a private copy of the
		// input afterwards must not show
		in := append([]byte{}, input(s.msgs[op.Doc])...)
		p := thrift.BinaryProtocol{Buf: in}
		x, err := p.ReadAnyWithDesc(s.desc, false, true, false, op.Rec)
		seterr(err)
		if err == nil {
			before := canonIface(x)
			for i := range in {
				in[i] = 0xEE
			}
			res.Out = []byte(canonIface(x))
			if string(res.Out) != before {
				res.Err = "RESULT-ALIASES-INPUT " + res.Err
			}
		}
	case opDescLookup:
		if s.desc.Type() == thrift.STRUCT {
			st := s.desc.Struct()
			var b []byte
			for _, k := range s.lookups {
				f := st.FieldByKey(k)
				if f != nil {
					b = append(b, byte(f.ID()>>8), byte(f.ID()), byte(f.Type().Type()), byte(f.Required()))
					if g := st.FieldById(f.ID()); g != f {
						b = append(b, 0xEE)
					}
				} else {
					b = append(b, 0xFF)
				}
			}
			for _, wv := range st.Requires() {
				b = append(b, byte(wv), byte(wv>>8), byte(wv>>16), byte(wv>>24), byte(wv>>32), byte(wv>>40), byte(wv>>48), byte(wv>>56))
			}
			res.Out = b
		}
	case opT2JException:
		_, err := s.excConv.Do(ctx, s.respDesc, s.excMsg)
		if err != nil {
			res.Keep = err
			res.Out = []byte(err.Error())
		}
	case opHTTPEmptyBody:
		req, err := dhttp.NewHTTPRequestFromUrl("GET", s.httpURL, nil)
		if err != nil {
			res.Err = "request:" + err.Error()
			break
		}
		out, err := s.httpConv.Do(context.WithValue(ctx, conv.CtxKeyHTTPRequest, req), s.desc, []byte{})
		res.Out = out
		seterr(err)
	case opHTTPBody:
		req, err := dhttp.NewHTTPRequestFromUrl("POST", s.httpURL, nil)
		if err != nil {
			res.Err = "request:" + err.Error()
			break
		}
		out, err := s.httpBodyConv.Do(context.WithValue(ctx, conv.CtxKeyHTTPRequest, req), s.desc, input(s.httpBodies[op.Doc]))
		res.Out = out
		seterr(err)
	case opP2J:
		if len(s.pbMsgs) == 0 {
			break
		}
		out, err := s.p2jConv.Do(ctx, s.pdesc, input(s.pbMsgs[op.Doc%len(s.pbMsgs)]))
		res.Out = out
		seterr(err)
	case opJ2P:
		if len(s.pbJSONs) == 0 {
			break
		}
		in := input(s.pbJSONs[op.Doc%len(s.pbJSONs)])
		tailOK := func() bool { return true }
		if op.Rec {
			in, tailOK = withTail(in) // a prefix of a larger buffer of the caller's
		}
		out, err := s.j2pConv.Do(ctx, s.pdesc, in)
		res.Out = out
		seterr(err)
		if !tailOK() {
			res.Err = "INPUT-TAIL-MODIFIED " + res.Err
		}
	case opPBLoadMarshal:
		if len(s.pbMsgs) == 0 {
			break
		}
		pn := pgeneric.PathNode{Node: pgeneric.NewRootValue(s.pdesc, input(s.pbMsgs[op.Doc%len(s.pbMsgs)])).Node}
		err := pn.Load(op.Rec, &pgeneric.Options{}, s.pdesc)
		seterr(err)
		if err == nil {
			out, err := pn.Marshal(&pgeneric.Options{})
			res.Out = out
			seterr(err)
		}
	case opPBInterface:
		if len(s.pbMsgs) == 0 {
			break
		}
		x, err := pgeneric.NewRootValue(s.pdesc, input(s.pbMsgs[op.Doc%len(s.pbMsgs)])).Interface(&pgeneric.Options{MapStructById: op.Rec})
		seterr(err)
		if err == nil {
			res.Out = []byte(canonIface(x))
		}
	case opPBSet:
		if len(s.pbMsgs) == 0 {
			break
		}
		k := op.Doc % len(s.pbMsgs)
		if s.pbSetPaths[k] == nil {
			break
		}
		v := pgeneric.NewRootValue(s.pdesc, append([]byte{}, s.pbMsgs[k]...))
		_, err := v.SetByPath(s.pbSetNodes[k], s.pbSetPaths[k]...)
		seterr(err)
		if err == nil {
			res.Out = append([]byte{}, v.Raw()...)
		}
	case opPBFields:
		if len(s.pbMsgs) == 0 {
			break
		}
		v := pgeneric.NewRootValue(s.pdesc, input(s.pbMsgs[op.Doc%len(s.pbMsgs)]))
		ids := make([]pgeneric.PathNode, len(s.pbFieldNums))
		ps := make([]pgeneric.PathNode, len(s.pbFieldNums))
		for i, n := range s.pbFieldNums {
			ids[i].Path = pgeneric.NewPathFieldId(proto.FieldNumber(n))
			ps[i].Path = pgeneric.NewPathFieldId(proto.FieldNumber(n))
		}
		err := v.Fields(ids, &pgeneric.Options{})
		seterr(err)
		if err == nil {
			err = v.GetMany(ps, &pgeneric.Options{})
			seterr(err)
		}
		if err == nil {
			for i := range ids {
				res.Out = append(res.Out, byte(ids[i].Node.Type()))
				res.Out = append(res.Out, ids[i].Node.Raw()...)
				res.Out = append(res.Out, ps[i].Node.Raw()...)
			}
		}
	case opInterface:
		n := generic.NewNode(thrift.Type(s.rootT.Kind), input(s.msgs[op.Doc]))
		x, err := n.Interface(s.gopts)
		seterr(err)
		if err == nil {
			res.Out = []byte(canonIface(x))
		}
	}
	return
}

// overlaps tells if two slices share memory (within their capacities).
func overlaps(a, b []byte) bool {
	if cap(a) == 0 || cap(b) == 0 {
		return false
	}
	a0, b0 := uintptr(unsafe.Pointer(&a[:1][0])), uintptr(unsafe.Pointer(&b[:1][0]))
	return a0 < b0+uintptr(cap(b)) && b0 < a0+uintptr(cap(a))
}

// inconsistentDefault looks for an integer field whose parsed IDL default differs between its two stored forms (the
// Thrift bytes and the JSON text are built separately: one of them sitting in memory that was handed on shows here).
func inconsistentDefault(d *thrift.TypeDescriptor, seen map[*thrift.StructDescriptor]bool) string {
	if d == nil {
		return ""
	}
	switch d.Type() {
	case thrift.LIST, thrift.SET:
		return inconsistentDefault(d.Elem(), seen)
	case thrift.MAP:
		if r := inconsistentDefault(d.Key(), seen); r != "" {
			return r
		}
		return inconsistentDefault(d.Elem(), seen)
	case thrift.STRUCT:
		st := d.Struct()
		if st == nil || seen[st] {
			return ""
		}
		seen[st] = true
		for _, f := range st.Fields() {
			if dv := f.DefaultValue(); dv != nil {
				tb := dv.ThriftBinary()
				var got int64
				ok := true
				switch f.Type().Type() {
				case thrift.BYTE:
					ok = len(tb) == 1
					if ok {
						got = int64(int8(tb[0]))
					}
				case thrift.I16:
					ok = len(tb) == 2
					if ok {
						got = int64(int16(uint16(tb[0])<<8 | uint16(tb[1])))
					}
				case thrift.I32:
					ok = len(tb) == 4
					if ok {
						got = int64(int32(uint32(tb[0])<<24 | uint32(tb[1])<<16 | uint32(tb[2])<<8 | uint32(tb[3])))
					}
				case thrift.I64:
					ok = len(tb) == 8
					if ok {
						var u uint64
						for i := 0; i < 8; i++ {
							u = u<<8 | uint64(tb[i])
						}
						got = int64(u)
					}
				default:
					continue
				}
				want, err := strconv.ParseInt(dv.JSONValue(), 10, 64)
				if err != nil {
					continue
				}
				if !ok || got != want {
					return fmt.Sprintf("field %s.%s: thrift form %x, JSON form %s", st.Name(), f.Name(), tb, dv.JSONValue())
				}
			}
			if r := inconsistentDefault(f.Type(), seen); r != "" {
				return r
			}
		}
	}
	return ""
}

func flattenTree(b []byte, ns []generic.PathNode) []byte {
	for i := range ns {
		n := &ns[i]
		b = append(b, byte(n.Path.Type()), byte(n.Node.Type()))
		b = append(b, []byte(n.Path.String())...)
		raw := n.Node.Raw()
		b = append(b, byte(len(raw)>>8), byte(len(raw)))
		b = append(b, raw...)
		b = append(b, '(')
		b = flattenTree(b, n.Next)
		b = append(b, ')')
	}
	return b
}

// canonIface renders a Go value tree deterministically (maps by sorted rendered keys).
func canonIface(x interface{}) string {
	switch v := x.(type) {
	case map[string]interface{}:
		ks := make([]string, 0, len(v))
		for k := range v {
			ks = append(ks, k)
		}
		sortStrings(ks)
		s := "{"
		for _, k := range ks {
			s += fmt.Sprintf("%q:", k) + canonIface(v[k]) + ","
		}
		return s + "}"
	case map[int]interface{}:
		ks := make([]string, 0, len(v))
		m := map[string]interface{}{}
		for k, e := range v {
			ks = append(ks, fmt.Sprint(k))
			m[fmt.Sprint(k)] = e
		}
		sortStrings(ks)
		s := "{"
		for _, k := range ks {
			s += k + ":" + canonIface(m[k]) + ","
		}
		return s + "}"
	case map[interface{}]interface{}:
		ks := make([]string, 0, len(v))
		m := map[string]interface{}{}
		for k, e := range v {
			kk := canonIface(k)
			ks = append(ks, kk)
			m[kk] = e
		}
		sortStrings(ks)
		s := "{"
		for _, k := range ks {
			s += k + ":" + canonIface(m[k]) + ","
		}
		return s + "}"
	case map[thrift.FieldID]interface{}:
		ks := make([]string, 0, len(v))
		m := map[string]interface{}{}
		for k, e := range v {
			kk := fmt.Sprintf("%06d", int(k))
			ks = append(ks, kk)
			m[kk] = e
		}
		sortStrings(ks)
		s := "{"
		for _, k := range ks {
			s += k + ":" + canonIface(m[k]) + ","
		}
		return s + "}"
	case []interface{}:
		s := "["
		for _, e := range v {
			s += canonIface(e) + ","
		}
		return s + "]"
	case []byte:
		return fmt.Sprintf("b%x", v)
	case string:
		return fmt.Sprintf("%q", v)
	case *interface{}:
		if v == nil {
			return "nil"
		}
		return canonIface(*v)
	}
	return fmt.Sprintf("%T:%v", x, x)
}

// ---- descriptor deep hash (reflection + unsafe over unexported fields)

type deepHasher struct {
	seen map[uintptr]bool
	h    uint64
	n    int
}

func (d *deepHasher) mix(v uint64) {
	d.h ^= v
	d.h *= 0x100000001b3
	d.n++
}

func (d *deepHasher) walk(v reflect.Value, depth int) {
	if depth > 60 || d.n > 2000000 {
		return
	}
	switch v.Kind() {
	case reflect.Ptr:
		if v.IsNil() {
			d.mix(0)
			return
		}
		p := v.Pointer()
		if d.seen[p] {
			d.mix(1)
			return
		}
		d.seen[p] = true
		d.walk(v.Elem(), depth+1)
	case reflect.Struct:
		for i := 0; i < v.NumField(); i++ {
			f := v.Field(i)
			if !f.CanInterface() && f.CanAddr() {
				f = reflect.NewAt(f.Type(), unsafe.Pointer(f.UnsafeAddr())).Elem()
			}
			d.walk(f, depth+1)
		}
	case reflect.Slice:
		d.mix(uint64(v.Len()))
		if v.Len() > 0 {
			p := v.Pointer()
			if d.seen[p+1] { // slices and pointers may share addresses; offset the key
				return
			}
			d.seen[p+1] = true
		}
		for i := 0; i < v.Len(); i++ {
			d.walk(v.Index(i), depth+1)
		}
	case reflect.Array:
		for i := 0; i < v.Len(); i++ {
			d.walk(v.Index(i), depth+1)
		}
	case reflect.String:
		s := v.String()
		d.mix(uint64(len(s)))
		for i := 0; i < len(s); i++ {
			d.mix(uint64(s[i]))
		}
	case reflect.Bool:
		if v.Bool() {
			d.mix(3)
		} else {
			d.mix(2)
		}
	case reflect.Int, reflect.Int8, reflect.Int16, reflect.Int32, reflect.Int64:
		d.mix(uint64(v.Int()))
	case reflect.Uint, reflect.Uint8, reflect.Uint16, reflect.Uint32, reflect.Uint64, reflect.Uintptr:
		d.mix(v.Uint())
	case reflect.Float32, reflect.Float64:
		d.mix(uint64(v.Float() * 1e6))
	case reflect.Map:
		// order-independent: xor of entry hashes
		var acc uint64
		it := v.MapRange()
		for it.Next() {
			sub := &deepHasher{seen: d.seen, h: 0xcbf29ce484222325}
			sub.walk(it.Key(), depth+1)
			sub.walk(it.Value(), depth+1)
			acc ^= sub.h
			d.n += sub.n
		}
		d.mix(acc)
	case reflect.Interface:
		if v.IsNil() {
			d.mix(0)
		} else {
			d.walk(v.Elem(), depth+1)
		}
	default:
		// unsafe.Pointer, func, chan: identity is not content; skipped
	}
}

func deepHash(x interface{}) uint64 {
	d := &deepHasher{seen: map[uintptr]bool{}, h: 0xcbf29ce484222325}
	d.walk(reflect.ValueOf(x), 0)
	return d.h
}

func sum64(b []byte) uint64 {
	h := uint64(0xcbf29ce484222325)
	for _, c := range b {
		h ^= uint64(c)
		h *= 0x100000001b3
	}
	return h
}

// ---- the world

func runC12(w *W) {
	t := w.T
	// a C12 world passes a few thousand yields; a call that does not terminate is a violation
	w.World.StepLimit = 2000000
	drawJ2TKnobs(w)
	w.World.GCBudget = 2
	drawFlavour(w)
	so := tgenOpts{MaxStructs: 1 + t.Intn(3, "sch.structs"), MaxFields: 2 + t.Intn(6, "sch.fields"), MaxDepth: 1 + t.Intn(3, "sch.depth"),
		BigIDs: t.Chance(1, 3, "sch.bigids"), Aliases: t.Chance(1, 3, "sch.alias"), Requiredness: t.Chance(1, 2, "sch.req"), Recursive: t.Chance(1, 4, "sch.rec"), Defaults: t.Chance(1, 3, "sch.defaults")}
	so.QueryAnno = t.Chance(1, 2, "sch.queryanno")
	// defaults spelled through constants / enum values: their encoded form lives in the shared descriptor
	so.ConstDefaults = so.Defaults && t.Chance(1, 2, "sch.constdefaults")
	// base64 binaries are the precondition of an open native finding (decode past the output buffer's
	// capacity, a silent heap overflow that makes results depend on what lies behind the buffer): they are
	// generated in 1/8 of the worlds only, and there every output buffer ends at an unmapped page
	so.NoBinary = !t.Chance(1, 8, "sch.binary")
	w.World.GuardGrowth = !so.NoBinary
	w.worldFacts = map[string]string{"has_base64": fmt.Sprint(!so.NoBinary)}
	sch := genSchema(t, so)
	// the exception of the response wrapper may have an id beyond the wrapper's own one-word bitmap
	sch.ExcID = pickInt(t, "sch.excid", 1, 1, 64, 100, 300)
	sch.IDL = renderIDL(sch)
	po := thrift.Options{UseDefaultValue: so.Defaults}
	sh := &c12Shared{rootT: sch.Root}
	var fn *thrift.FunctionDescriptor
	sh.desc, fn = parseThriftFn(w, sch, po)
	sh.desc2 = parseThrift(w, sch, po)
	// exception message: response struct {1: SimExc{1: code, 2: msg}}
	sh.respDesc = fn.Response()
	emsg := vgenStr(t, 40)
	sh.excMsg = append([]byte{tSTRUCT, byte(sch.ExcID >> 8), byte(sch.ExcID), tI32, 0, 1, 0, 0, 1, 0x90, tSTRING, 0, 2, 0, 0, 0, byte(len(emsg))}, emsg...)
	sh.excMsg = append(sh.excMsg, 0, 0)
	ec := t2j.NewBinaryConv(conv.Options{ConvertException: true})
	sh.excConv = &ec
	// http-mapping converter + a URL whose query populates the annotated fields
	hc := j2t.NewBinaryConv(conv.Options{EnableHttpMapping: true, WriteDefaultField: t.Chance(1, 2, "opt.http.wd"), WriteRequireField: true})
	sh.httpConv = &hc
	hbc := j2t.NewBinaryConv(conv.Options{EnableHttpMapping: true, ReadHttpValueFallback: true, TracebackRequredOrRootFields: true, WriteDefaultField: t.Chance(1, 2, "opt.httpbody.wd")})
	sh.httpBodyConv = &hbc
	sh.httpURL = "http://sim.local/p?x=1"
	for _, st := range sch.Structs {
		for _, f := range st.Fields {
			if f.Query != "" {
				v := "1"
				if f.T.Kind == tBOOL {
					v = "true"
				} else if f.T.Kind == tSTRING {
					v = "s" + f.Name
				}
				sh.httpURL += "&" + f.Query + "=" + v
			}
		}
	}
	copts := conv.Options{WriteDefaultField: t.Chance(1, 3, "opt.wd"), WriteRequireField: t.Chance(1, 2, "opt.wr"), DisallowUnknownField: t.Chance(1, 5, "opt.du"), NoBase64Binary: false}
	jc := j2t.NewBinaryConv(copts)
	tc := t2j.NewBinaryConv(copts)
	sh.j2tConv, sh.t2jConv = &jc, &tc
	sh.gopts = &generic.Options{WriteDefault: copts.WriteDefaultField, UseNativeSkip: t.Chance(1, 2, "opt.nativeskip"), StoreChildrenById: t.Chance(1, 3, "opt.byid"), StoreChildrenByHash: t.Chance(1, 3, "opt.byhash")}
	w.Logf("IDL:\n%s\nconv options %+v generic options %+v", sch.IDL, copts, *sh.gopts)

	ndocs := 1 + t.Intn(3, "ndocs")
	vg := &vgen{t: t, o: vgenOpts{MaxElems: 1 + t.Intn(8, "val.elems"), MaxStr: 1 + sizeClass(t, "val.maxstr", 300), Depth: 1 + t.Intn(4, "val.depth"), PresentPct: pickInt(t, "val.present", 70, 100, 40), NonNegByteKeys: true, UnknownPct: pickInt(t, "val.unknown", 0, 10)}}
	var roBufs []*simrt.Buf
	for d := 0; d < ndocs; d++ {
		val := vg.value(sch.Root, vg.o.Depth)
		style := &jsonStyle{t: t, WS: t.Intn(3, "js.ws"), Esc: t.Intn(3, "js.esc"), Num: t.Intn(2, "js.num")}
		js := style.render(val)
		// thrift side: the value without the JSON-only unknown members
		msg := encodeThrift(nil, val)
		jb := w.AllocData(js, simrt.PlaceReadOnly)
		mb := w.AllocData(msg, simrt.PlaceReadOnly)
		roBufs = append(roBufs, jb, mb)
		sh.jsons = append(sh.jsons, jb.B)
		sh.msgs = append(sh.msgs, mb.B)
		sh.vals = append(sh.vals, val)
		{
			var mm []byte
			var md, md2 *thrift.TypeDescriptor
			var cands []TFieldVal
			for _, fv := range val.Fields {
				if fv.F != nil && fv.V != nil && fv.F.T.Kind != tSTRUCT {
					cands = append(cands, fv)
				}
			}
			if len(cands) > 0 {
				fv := cands[t.Intn(len(cands), "member.which")]
				b := w.AllocData(encodeThrift(nil, fv.V), simrt.PlaceReadOnly)
				roBufs = append(roBufs, b)
				mm = b.B
				md = sh.desc.Struct().FieldById(thrift.FieldID(fv.F.ID)).Type()
				md2 = sh.desc2.Struct().FieldById(thrift.FieldID(fv.F.ID)).Type()
			}
			sh.memberMsgs, sh.memberDesc, sh.memberDesc2 = append(sh.memberMsgs, mm), append(sh.memberDesc, md), append(sh.memberDesc2, md2)
		}
		// the http body: the same document without some of its root members
		hv := &TVal{T: val.T}
		for _, fv := range val.Fields {
			if !t.Chance(2, 5, "httpbody.drop") {
				hv.Fields = append(hv.Fields, fv)
			}
		}
		hb := w.AllocData((&jsonStyle{t: t}).render(hv), simrt.PlaceReadOnly)
		roBufs = append(roBufs, hb)
		sh.httpBodies = append(sh.httpBodies, hb.B)
		w.Logf("doc %d: json %d bytes %s | thrift %d bytes %x", d, len(js), clip(js, 200), len(msg), clipb(msg, 100))
	}
	for _, f := range sch.Root.St.Fields {
		sh.lookups = append(sh.lookups, f.Key())
	}
	sh.lookups = append(sh.lookups, "", "nope", "unk_702", "fcc32")

	// protobuf side: a shared descriptor, reference-encoded messages and their JSON (as produced by p2j itself)
	if t.Chance(2, 3, "c12.proto") {
		psch := genPSchema(t, pgenOpts{MaxMsgs: 1 + t.Intn(3, "psch.msgs"), MaxFields: 1 + t.Intn(6, "psch.fields"), Enums: t.Chance(1, 2, "psch.enums"), NoPackedFixed: true})
		sh.pdesc = parseProto(w, psch)
		for _, f := range psch.Root().Fields {
			sh.pbFieldNums = append(sh.pbFieldNums, f.Num)
		}
		pc := p2j.NewBinaryConv(conv.Options{})
		jc := j2p.NewBinaryConv(conv.Options{})
		sh.p2jConv, sh.j2pConv = &pc, &jc
		for d := 0; d < ndocs; d++ {
			mv, _ := genPMessage(t, psch, pvgenOpts{MaxElems: 1 + t.Intn(5, "pval.elems"), MaxStr: 1 + sizeClass(t, "pval.maxstr", 200), Depth: 1 + t.Intn(3, "pval.depth"), PresentPct: 70, KeyMaxInt63: true, NoNegZero: true})
			pb := psch.refEncode(mv)
			pbuf := w.AllocData(pb, simrt.PlaceReadOnly)
			roBufs = append(roBufs, pbuf)
			sh.pbMsgs = append(sh.pbMsgs, pbuf.B)
			// the edit of opPBSet: replace an existing string / bytes leaf (as deep as the message goes) by a longer one
			{
				h := &c10Handle{name: "c12", v: pgeneric.NewRootValue(sh.pdesc, append([]byte{}, pb...)), model: mv}
				sw := c10Switches{}
				var path []pgeneric.Path
				var node pgeneric.Node
				if tg := c10PickTarget(w, h, &sw, 1, func(f *PField) bool { return f.K == pkString || f.K == pkBytes }); tg != nil && tg.exists && (tg.kind != tgField || tg.f.Card == cSingle) && !(tg.kind == tgElem && tg.idx == 0) {
					if nv := c10Value(w, psch, &sw, tg.f, tg.kind == tgField, 100+t.Intn(100, "pbset.len")); nv != nil {
						path, node = tg.path(), c10Node(psch, nv)
					}
				}
				sh.pbSetPaths = append(sh.pbSetPaths, path)
				sh.pbSetNodes = append(sh.pbSetNodes, node)
			}
			if js, err := pc.Do(context.Background(), sh.pdesc, pbuf.B); err == nil && len(js) > 1 {
				// an unknown member (skipped by j2p) at a tape-chosen place: a call cut inside it fails while skipping
				if js[len(js)-1] == '}' && t.Chance(2, 3, "pjson.unknown") {
					unk := `"unk_zz":{"a":[1,2,{"b":"x"}],"c":null}`
					body := append([]byte{}, js[:len(js)-1]...)
					if len(body) > 1 {
						body = append(body, ',')
					}
					js = append(append(body, unk...), '}')
				}
				jbuf := w.AllocData(js, simrt.PlaceReadOnly)
				roBufs = append(roBufs, jbuf)
				sh.pbJSONs = append(sh.pbJSONs, jbuf.B)
			}
		}
	}

	// programs
	ntasks := 2 + t.Intn(3, "ntasks")
	progs := make([][]*c12Op, ntasks)
	for i := range progs {
		n := 3 + t.Intn(8, "prog.len")
		for k := 0; k < n; k++ {
			progs[i] = append(progs[i], drawC12Op(w, sh))
		}
	}
	descHash := deepHash(sh.desc) ^ deepHash(sh.respDesc)*3
	if sh.pdesc != nil {
		descHash ^= deepHash(sh.pdesc) * 7
	}
	var inSums []uint64
	for _, b := range roBufs {
		inSums = append(inSums, sum64(b.B))
	}

	// ---- phase 1: every operation alone in a pristine pool environment
	solo := make([][]c12Result, ntasks)
	for i := range progs {
		solo[i] = make([]c12Result, len(progs[i]))
		for k, op := range progs[i] {
			w.World.DropPools()
			w.NextOp(fmt.Sprintf("solo T%d.%d %s", i, k, op.Desc))
			w.opFacts = map[string]string{"phase": "solo", "op": c12OpNames[op.Kind]}
			solo[i][k] = sh.exec(op)
			w.Logf("   -> err=%q out=%d bytes %x", solo[i][k].Err, len(solo[i][k].Out), clipb(solo[i][k].Out, 40))
			if op.Cut == 0 && len(solo[i][k].Err) > 5 && solo[i][k].Err[:5] == "PANIC" {
				w.Failf("panic-in-op", w.opFacts, "operation %s panicked: %s", op.Desc, solo[i][k].Err)
			}
			if strings.HasPrefix(solo[i][k].Err, "RESULT-ALIASES-INPUT") {
				w.Failf("result-aliases-input", w.opFacts, "the result of %s refers to the caller's input bytes", op.Desc)
			}
			if strings.HasPrefix(solo[i][k].Err, "INPUT-TAIL-MODIFIED") {
				w.Failf("input-modified", w.opFacts, "operation %s wrote into the caller's buffer behind the end of its input", op.Desc)
			}
		}
	}
	w.opFacts = nil

	// ---- phase 2a: history - the same programs back to back with dirty pools (failing calls in between)
	w.World.DropPools()
	for i := range progs {
		for k, op := range progs[i] {
			w.NextOp(fmt.Sprintf("history T%d.%d %s", i, k, op.Desc))
			r := sh.exec(op)
			if !r.equal(solo[i][k]) {
				w.Failf("history-dependent", map[string]string{"phase": "history", "op": c12OpNames[op.Kind]},
					"%s gives a different result after earlier calls recycled the pools\nsolo: err=%q %x\n now: err=%q %x", op.Desc, solo[i][k].Err, clipb(solo[i][k].Out, 200), r.Err, clipb(r.Out, 200))
			}
		}
	}
	w.Count("history_runs")

	// ---- phase 2b: interleaved under the tape-driven scheduler
	w.World.SwitchNum, w.World.SwitchDen = 1, pickInt(t, "sched.den", 20, 3, 200)
	w.World.SwitchPool = t.Chance(1, 2, "sched.pool")
	inter := make([][]c12Result, ntasks)
	fns := make([]func(), ntasks)
	for i := range progs {
		i := i
		inter[i] = make([]c12Result, len(progs[i]))
		fns[i] = func() {
			for k, op := range progs[i] {
				inter[i][k] = sh.exec(op)
			}
		}
	}
	w.NextOp(fmt.Sprintf("interleave %d tasks (switch 1/%d, at pools %v)", ntasks, w.World.SwitchDen, w.World.SwitchPool))
	w.opFacts = map[string]string{"phase": "interleaved"}
	if pi, pv := w.World.RunTasks(fns); pi >= 0 {
		w.Failf("panic-in-task", w.opFacts, "task %d panicked: %v", pi, pv)
	}
	w.opFacts = nil
	w.World.SwitchNum = 0
	w.CountN("task_switches", uint64(w.World.Switches))
	w.T.Note(w.World.SchedHash)
	for i := range progs {
		for k, op := range progs[i] {
			if !inter[i][k].equal(solo[i][k]) {
				w.Failf("schedule-dependent", map[string]string{"phase": "interleaved", "op": c12OpNames[op.Kind]},
					"T%d.%d %s gives a different result when interleaved\nsolo: err=%q %x\n now: err=%q %x", i, k, op.Desc, solo[i][k].Err, clipb(solo[i][k].Out, 200), inter[i][k].Err, clipb(inter[i][k].Out, 200))
			}
		}
	}

	// ---- phase 3: churn - unrelated calls that recycle every pool; retained results must stay intact
	copies := make([][][]byte, ntasks)
	for i := range inter {
		copies[i] = make([][]byte, len(inter[i]))
		for k := range inter[i] {
			copies[i][k] = append([]byte{}, inter[i][k].Out...)
		}
	}
	w.World.PoolFreshPct = 1
	nchurn := 4 + t.Intn(12, "churn.n")
	for k := 0; k < nchurn; k++ {
		op := drawC12Op(w, sh)
		w.NextOp("churn " + op.Desc)
		sh.exec(op)
	}
	for i := range inter {
		for k := range inter[i] {
			if inter[i][k].Keep != nil && inter[i][k].Keep.Error() != string(copies[i][k]) {
				w.Failf("result-aliased", map[string]string{"op": c12OpNames[progs[i][k].Kind]}, "the text of the error returned by T%d.%d %s changed after later calls (it aliases pooled memory)\nwas: %s\nnow: %s", i, k, progs[i][k].Desc, clip(copies[i][k], 200), clip([]byte(inter[i][k].Keep.Error()), 200))
			}
			if !bytes.Equal(inter[i][k].Out, copies[i][k]) {
				w.Failf("result-aliased", map[string]string{"op": c12OpNames[progs[i][k].Kind]}, "the result of T%d.%d %s changed after later calls (it aliases pooled memory)\nwas: %x\nnow: %x", i, k, progs[i][k].Desc, clipb(copies[i][k], 200), clipb(inter[i][k].Out, 200))
			}
		}
	}
	// ---- immutability of shared inputs and descriptors
	for i, b := range roBufs {
		if sum64(b.B) != inSums[i] {
			w.Failf("input-modified", nil, "a shared input buffer was modified")
		}
	}
	if bad := inconsistentDefault(sh.desc, map[*thrift.StructDescriptor]bool{}); bad != "" {
		w.Failf("descriptor-default-corrupt", nil, "the shared descriptor's parsed default is not what its IDL says: %s", bad)
	}
	descHash2 := deepHash(sh.desc) ^ deepHash(sh.respDesc)*3
	if sh.pdesc != nil {
		descHash2 ^= deepHash(sh.pdesc) * 7
	}
	if descHash2 != descHash {
		w.Failf("descriptor-modified", nil, "the shared type descriptor graph changed (deep hash differs)")
	}
	w.Sig(fmt.Sprintf("tasks%d/sw%d/pool%v", ntasks, w.World.SwitchDen, w.World.SwitchPool))
	w.sample = map[string]interface{}{"tasks": ntasks, "ops": len(progs[0]), "switches": w.World.Switches}
}

func drawC12Op(w *W, sh *c12Shared) *c12Op {
	t := w.T
	op := &c12Op{Kind: t.Intn(nC12Ops, "op.kind"), Doc: t.Intn(len(sh.jsons), "op.doc")}
	in := sh.msgs[op.Doc]
	switch op.Kind {
	case opJ2TDo, opJ2TDoInto:
		in = sh.jsons[op.Doc]
	case opHTTPBody:
		in = sh.httpBodies[op.Doc]
	case opMarshalToMember:
		if op.Doc < len(sh.memberMsgs) && sh.memberMsgs[op.Doc] != nil {
			in = sh.memberMsgs[op.Doc]
		}
	case opP2J, opPBLoadMarshal, opPBInterface, opPBFields, opPBSet:
		if len(sh.pbMsgs) > 0 {
			in = sh.pbMsgs[op.Doc%len(sh.pbMsgs)]
		}
	case opJ2P:
		if len(sh.pbJSONs) > 0 {
			in = sh.pbJSONs[op.Doc%len(sh.pbJSONs)]
		}
	}
	if t.Chance(1, 5, "op.fail") && len(in) > 1 && op.Kind != opDescLookup && op.Kind != opT2JException && op.Kind != opHTTPEmptyBody {
		op.Cut = 1 + t.Intn(len(in)-1, "op.cut")
	}
	op.Cap = pickInt(t, "op.cap", 0, 16, len(in), len(in)+7, 4096)
	op.Rec = t.Chance(1, 2, "op.rec")
	if op.Kind == opGetByPath {
		// a path into the value (existing elements)
		var ps []pstep
		cur := sh.vals[op.Doc]
		for d := 0; d < 4; d++ {
			var steps []pstep
			switch cur.T.Kind {
			case tSTRUCT:
				for _, fv := range cur.Fields {
					if fv.F != nil && fv.V != nil {
						steps = append(steps, pstep{Kind: 0, ID: fv.F.ID, Name: fv.F.Name})
					}
				}
			case tLIST, tSET:
				for i := range cur.List {
					steps = append(steps, pstep{Kind: 1, Idx: i})
				}
			case tMAP:
				for _, k := range cur.Keys {
					if k.T.Kind == tSTRING {
						steps = append(steps, pstep{Kind: 2, SKey: string(k.S)})
					} else {
						steps = append(steps, pstep{Kind: 3, IKey: k.I})
					}
				}
			}
			if len(steps) == 0 || (d > 0 && t.Chance(1, 3, "op.path.stop")) {
				break
			}
			s := steps[t.Intn(len(steps), "op.path.step")]
			ps = append(ps, s)
			cur, _, _ = childAt(cur, s)
		}
		op.Path = toLibPath(ps, t.Chance(1, 2, "op.path.byname"))
		op.Desc = fmt.Sprintf("GetByPath(doc %d, %s)", op.Doc, pathString(ps))
	} else {
		op.Desc = fmt.Sprintf("%s(doc %d, cut=%d, cap=%d, rec=%v)", c12OpNames[op.Kind], op.Doc, op.Cut, op.Cap, op.Rec)
	}
	return op
}

// vgenStr: a short plain string from the tape.
func vgenStr(t *simrt.Tape, max int) []byte {
	n := 1 + t.Intn(max, "str.n")
	b := make([]byte, n)
	for i := range b {
		b[i] = fieldNameAlphabet[t.Intn(52, "str.c")]
	}
	return b
}
