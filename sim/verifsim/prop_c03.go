package main

import (
	"bytes"
	"context"
	"encoding/json"
	"fmt"
	"github.com/cloudwego/dynamicgo/internal/simrt"
	"math"

	"github.com/cloudwego/dynamicgo/thrift/base"

	"github.com/cloudwego/dynamicgo/conv"
	"github.com/cloudwego/dynamicgo/conv/t2j"
	"github.com/cloudwego/dynamicgo/thrift"
)

func init() { register("C03", runC03) }

func hasNonFinite(v *TVal) bool {
	if v == nil {
		return false
	}
	switch v.T.Kind {
	case tDOUBLE:
		return math.IsNaN(v.D) || math.IsInf(v.D, 0)
	case tSTRUCT:
		for _, fv := range v.Fields {
			if fv.F != nil && hasNonFinite(fv.V) {
				return true
			}
		}
	case tLIST, tSET:
		for _, e := range v.List {
			if hasNonFinite(e) {
				return true
			}
		}
	case tMAP:
		for i := range v.Keys {
			if hasNonFinite(v.Keys[i]) || hasNonFinite(v.Vals[i]) {
				return true
			}
		}
	}
	return false
}

// sprinkleNonFinite replaces some doubles by NaN / +Inf / -Inf.
func sprinkleNonFinite(w *W, v *TVal) {
	if v == nil {
		return
	}
	switch v.T.Kind {
	case tDOUBLE:
		if w.T.Chance(1, 3, "nonfinite") {
			v.D = []float64{math.NaN(), math.Inf(1), math.Inf(-1)}[w.T.Intn(3, "nonfinite.which")]
		}
	case tSTRUCT:
		for _, fv := range v.Fields {
			if fv.F != nil {
				sprinkleNonFinite(w, fv.V)
			}
		}
	case tLIST, tSET:
		for _, e := range v.List {
			sprinkleNonFinite(w, e)
		}
	case tMAP:
		for _, e := range v.Vals {
			sprinkleNonFinite(w, e)
		}
	}
}

// respBaseField draws a base.BaseResp and encodes it as field 255 of the enclosing struct.
func respBaseField(t *simrt.Tape) ([]byte, *base.BaseResp) {
	want := &base.BaseResp{StatusMessage: string(vgenStr(t, 40)), StatusCode: int32(t.Intn(1000, "respbase.code")) - 500}
	bb := []byte{tSTRUCT, 0, 255, tSTRING, 0, 1, 0, 0, 0, byte(len(want.StatusMessage))}
	bb = append(bb, want.StatusMessage...)
	bb = append(bb, tI32, 0, 2, byte(uint32(want.StatusCode)>>24), byte(uint32(want.StatusCode)>>16), byte(uint32(want.StatusCode)>>8), byte(uint32(want.StatusCode)))
	if t.Chance(1, 2, "respbase.extra") {
		k, v := string(vgenStr(t, 8)), string(vgenStr(t, 100))
		want.Extra = map[string]string{k: v}
		bb = append(bb, tMAP, 0, 3, tSTRING, tSTRING, 0, 0, 0, 1, 0, 0, 0, byte(len(k)))
		bb = append(bb, k...)
		bb = append(bb, 0, 0, 0, byte(len(v)))
		bb = append(bb, v...)
	}
	return append(bb, 0), want
}

// takeRespBaseMember checks and removes the "BaseResp" member of a document converted with the response-base switch off.
func takeRespBaseMember(parsed interface{}, want *base.BaseResp) string {
	m, ok := parsed.(map[string]interface{})
	if !ok {
		return "$: not an object"
	}
	b, ok := m["BaseResp"].(map[string]interface{})
	if !ok {
		return fmt.Sprintf("$.BaseResp: the field is present in the message and conv.Options.EnableThriftBase is off, got %#v", m["BaseResp"])
	}
	delete(m, "BaseResp")
	n := 2
	if s, ok := b["StatusMessage"].(string); !ok || s != want.StatusMessage {
		return fmt.Sprintf("$.BaseResp.StatusMessage: want %q, got %#v", want.StatusMessage, b["StatusMessage"])
	}
	if c, ok := b["StatusCode"].(json.Number); !ok || c.String() != fmt.Sprint(want.StatusCode) {
		return fmt.Sprintf("$.BaseResp.StatusCode: want %d, got %#v", want.StatusCode, b["StatusCode"])
	}
	if want.Extra != nil {
		n++
		e, ok := b["Extra"].(map[string]interface{})
		if !ok || len(e) != len(want.Extra) {
			return fmt.Sprintf("$.BaseResp.Extra: want %v, got %#v", want.Extra, b["Extra"])
		}
		for k, v := range want.Extra {
			if s, ok := e[k].(string); !ok || s != v {
				return fmt.Sprintf("$.BaseResp.Extra[%q]: want %q, got %#v", k, v, e[k])
			}
		}
	}
	if len(b) != n {
		return fmt.Sprintf("$.BaseResp: %d members, want %d: %v", len(b), n, b)
	}
	return ""
}

func runC03(w *W) {
	t := w.T
	resetKnobs()
	conv.DefaultBufferSize = pickInt(t, "knob.bufsize", 4096, 1, 16, 65536)
	if t.Chance(1, 3, "knob.gc") {
		w.World.GCNum, w.World.GCDen, w.World.GCBudget = 1, pickInt(t, "knob.gcden", 8, 32, 128), 3
	}
	w.World.PoolFreshPct = pickInt(t, "knob.poolfresh", 20, 0, 50, 100)
	flavour := drawFlavour(w)
	so := tgenOpts{MaxStructs: 1 + t.Intn(4, "sch.structs"), MaxFields: 1 + t.Intn(8, "sch.fields"), MaxDepth: 1 + t.Intn(3, "sch.depth"),
		BigIDs: t.Chance(1, 3, "sch.bigids"), Aliases: t.Chance(1, 3, "sch.alias"), Recursive: t.Chance(1, 3, "sch.rec"), JSConv: t.Chance(1, 3, "sch.jsconv")}
	so.SplitFiles = t.Chance(1, 4, "sch.split")
	so.Typedefs, so.ZeroID = t.Chance(1, 3, "sch.typedefs"), t.Chance(1, 4, "sch.zeroid")
	sch := genSchema(t, so)
	po := thrift.Options{}
	// thrift response base: a root field of type base.BaseResp is extracted into the object the caller put
	// into the context, and left out of the JSON
	respBase := t.Chance(1, 8, "sch.respbase") && sch.Root.St.ByID(255) == nil
	if respBase {
		sch.AddInclude("base.thrift", baseIDL)
		sch.Root.St.RawFields = append(sch.Root.St.RawFields, "255: base.BaseResp BaseResp")
		if t.Chance(1, 2, "sch.respbase.both") && sch.Root.St.ByID(254) == nil {
			// a struct used as request and as response declares both bases (the request base is absent from the messages)
			sch.Root.St.RawFields = append(sch.Root.St.RawFields, "254: base.Base Base")
		}
		sch.IDL = renderIDL(sch)
		po.EnableThriftBase = true
		w.Count("worlds_with_response_base")
		w.Sig("respbase")
	}
	desc := parseThrift(w, sch, po)
	// the converter's own switch may be off although the descriptor was parsed with the base and the (shared) context
	// carries an object: the field is then an ordinary member of the document and the object is left alone
	convBase := respBase && !t.Chance(1, 4, "opt.respbase.off")
	if respBase && !convBase {
		w.Count("worlds_with_response_base_switched_off")
		w.Sig("respbase-off")
	}
	opts := conv.Options{EnableThriftBase: convBase, Int642String: t.Chance(1, 3, "opt.i2s"), ByteAsUint8: t.Chance(1, 3, "opt.u8"), NoBase64Binary: t.Chance(1, 5, "opt.nob64"),
		DisallowUnknownField: t.Chance(1, 5, "opt.du"), UseNativeSkip: t.Chance(1, 2, "opt.nativeskip"), EnableValueMapping: so.JSConv && t.Chance(2, 3, "opt.vm")}
	jo := t2jOpts{Int642String: opts.Int642String, ByteAsUint8: opts.ByteAsUint8, NoBase64: opts.NoBase64Binary, ValueMapping: opts.EnableValueMapping}
	cv := t2j.NewBinaryConv(opts)
	if t.Chance(1, 4, "reopt.use") {
		// the converter starts life with other options and gets these by SetOptions
		cv = t2j.NewBinaryConv(otherOpts(t, opts))
		cv.SetOptions(opts)
		w.Count("converter_reconfigured_by_SetOptions")
	}
	ctx := context.Background()
	w.Logf("IDL:\n%s\noptions %+v flavour %s", sch.IDL, opts, flavour)
	w.Sig(fmt.Sprintf("i2s%v/u8%v/nb%v/vm%v/buf%d", opts.Int642String, opts.ByteAsUint8, opts.NoBase64Binary, opts.EnableValueMapping, conv.DefaultBufferSize))

	nmsg := 1 + t.Intn(4, "nmsg")
	for d := 0; d < nmsg; d++ {
		vo := vgenOpts{MaxElems: 1 + t.Intn(12, "val.elems"), MaxStr: 1 + sizeClass(t, "val.maxstr", 5000), Depth: 1 + t.Intn(4, "val.depth"),
			PresentPct: pickInt(t, "val.present", 70, 100, 30), NonNegByteKeys: false}
		vg := &vgen{t: t, o: vo}
		val := vg.value(sch.Root, vo.Depth)
		if opts.NoBase64Binary {
			textifyBinaries(vg, val)
		}
		nonFinite := false
		if t.Chance(1, 6, "msg.nonfinite") {
			sprinkleNonFinite(w, val)
			nonFinite = hasNonFinite(val)
		}
		nunk := 0
		if t.Chance(1, 4, "msg.unknown") {
			nunk = addUnknownThriftFields(t, val)
		}
		// the response struct nested in itself: only the root's base goes to the context, a nested one is an ordinary member
		nestedKey := ""
		var nestedWant *base.BaseResp
		if convBase && t.Chance(1, 2, "respbase.nested") {
			for i := range val.Fields {
				fv := &val.Fields[i]
				if fv.F != nil && fv.V != nil && fv.F.T.Kind == tSTRUCT && fv.F.T.St == sch.Root.St {
					var nbb []byte
					nbb, nestedWant = respBaseField(t)
					fv.V.Fields = append(fv.V.Fields, TFieldVal{UnknownKey: "#255", UnknownRaw: nbb})
					nestedKey = fv.F.Key()
					w.Count("nested_response_base")
					break
				}
			}
		}
		src := encodeThrift(nil, val)
		var wantBase *base.BaseResp
		if respBase {
			var bb []byte
			bb, wantBase = respBaseField(t)
			// the field sits at a tape-chosen top-level position: in front, or right before the STOP byte
			if t.Chance(1, 2, "respbase.front") {
				src = append(bb, src...)
			} else {
				src = append(append(append([]byte{}, src[:len(src)-1]...), bb...), 0)
			}
		}
		w.Logf("msg %d: %d bytes (unknown=%d nonfinite=%v) %x", d, len(src), nunk, nonFinite, clipb(src, 300))
		// a failing conversion right before the checked one
		if t.Chance(1, 4, "msg.prefail") && len(src) > 2 {
			w.NextOp("t2j pre-failing conversion (truncated message)")
			cv.Do(ctx, desc, src[:1+t.Intn(len(src)-1, "msg.prefail.cut")])
			w.Count("prefail_conversion")
		}
		var first []byte
		expLen := 0
		nenv := 2 + t.Intn(3, "nenv")
		for k := 0; k < nenv; k++ {
			env := drawT2JEnv(w)
			w.NextOp(fmt.Sprintf("t2j msg %d env %s", d, env))
			facts := map[string]string{"nonfinite": fmt.Sprint(nonFinite), "api_dointo": fmt.Sprint(env.DoInto)}
			w.opFacts = facts
			cctx := ctx
			var gotBase *base.BaseResp
			if respBase {
				gotBase = &base.BaseResp{}
				cctx = context.WithValue(ctx, conv.CtxKeyThriftRespBase, gotBase)
			}
			r := runT2J(w, &cv, desc, src, env, cctx, expLen)
			w.opFacts = nil
			if respBase && !convBase && r.Err == nil {
				if gotBase.StatusMessage != "" || gotBase.StatusCode != 0 || gotBase.Extra != nil {
					w.Failf("response-base-touched", facts, "conv.Options.EnableThriftBase is off but the object in the context was written: %+v (env %s)", *gotBase, env)
				}
			}
			if convBase && r.Err == nil && !(nunk > 0 && opts.DisallowUnknownField) {
				if gotBase.StatusMessage != wantBase.StatusMessage || gotBase.StatusCode != wantBase.StatusCode || len(gotBase.Extra) != len(wantBase.Extra) {
					w.Failf("response-base-wrong", facts, "the response base extracted into the context is %+v, the message holds %+v (env %s)", *gotBase, *wantBase, env)
				}
				for k, v := range wantBase.Extra {
					if gotBase.Extra[k] != v {
						w.Failf("response-base-wrong", facts, "the response base extracted into the context is %+v, the message holds %+v (env %s)", *gotBase, *wantBase, env)
					}
				}
				w.Count("response_base_extracted")
			}
			w.T.NoteBytes(r.Out)
			if env.DoInto {
				w.Sig(fmt.Sprintf("cap%d", env.CapMode))
			}
			switch {
			case nunk > 0 && opts.DisallowUnknownField:
				if r.Err == nil {
					w.Failf("unknown-accepted", facts, "unknown field + DisallowUnknownField but conversion succeeded")
				}
				w.Count("unknown_rejected")
			case r.Err != nil:
				if !nonFinite {
					w.Failf("conforming-rejected", facts, "t2j rejected a conforming message (env %s): %v", env, r.Err)
				}
				w.Count("nonfinite_rejected")
			default:
				parsed, perr := parseJSONStrict(r.Out)
				if perr != nil {
					w.Failf("invalid-json", facts, "t2j returned malformed JSON with a nil error (env %s): %v\n%s", env, perr, clip(r.Out, 600))
				}
				if nonFinite {
					w.Failf("nonfinite-as-valid-json", facts, "message holds NaN/Inf but the output parsed as JSON: %s", clip(r.Out, 300))
				}
				if dk := objectKeysDup(r.Out); dk != "" {
					w.Failf("duplicate-member", facts, "t2j emitted member %q twice: %s", dk, clip(r.Out, 500))
				}
				if nestedKey != "" {
					sub, _ := parsed.(map[string]interface{})
					if d := takeRespBaseMember(sub[nestedKey], nestedWant); d != "" {
						w.Failf("wrong-json", facts, "the nested response struct lost its BaseResp member (env %s): %s\njson: %s", env, d, clip(r.Out, 600))
					}
				}
				if respBase && !convBase {
					if d := takeRespBaseMember(parsed, wantBase); d != "" {
						w.Failf("wrong-json", facts, "output does not denote the message (env %s): %s\njson: %s", env, d, clip(r.Out, 600))
					}
					w.Count("response_base_as_member")
				}
				if diff := cmpJSON("$", parsed, val, jo, nil); diff != "" {
					w.Failf("wrong-json", facts, "output does not denote the message (env %s): %s\njson: %s", env, diff, clip(r.Out, 600))
				}
				if first == nil {
					first = append([]byte{}, r.Out...)
					expLen = len(first)
				} else if !bytes.Equal(first, r.Out) {
					w.Failf("env-dependent", facts, "same message, different JSON under env %s:\n%s\nvs\n%s", env, clip(first, 300), clip(r.Out, 300))
				}
				w.Count("conforming_ok")
			}
		}
	}
	w.sample = map[string]interface{}{"msgs": nmsg, "options": fmt.Sprintf("%+v", opts), "flavour": flavour}
}
