package main

import (
	"bytes"
	"context"
	"fmt"

	"github.com/cloudwego/dynamicgo/conv"
	"github.com/cloudwego/dynamicgo/conv/j2t"
	"github.com/cloudwego/dynamicgo/conv/t2j"
	"github.com/cloudwego/dynamicgo/internal/simrt"
	"github.com/cloudwego/dynamicgo/meta"
	"github.com/cloudwego/dynamicgo/thrift"
	"github.com/cloudwego/dynamicgo/thrift/generic"
)

func init() { register("C16", runC16) }

// zeroVal is the model of "the zero value (the empty struct for struct types)".
func zeroVal(t *TType) *TVal {
	v := &TVal{T: t, Zero: true}
	if t.Kind == tSTRING {
		v.S = []byte{}
	}
	return v
}

// unsetPlan applies the requiredness truth table to the fields of st that are not present.
// It returns the fields to write (ascending id) with their values, or missing=true.
func unsetPlan(st *TStruct, present map[int]bool, o writeOpts, useDefaults bool) (write []TFieldVal, missing *TField) {
	ids := make([]int, 0, len(st.Fields))
	for _, f := range st.Fields {
		if !present[f.ID] {
			ids = append(ids, f.ID)
		}
	}
	sortInts(ids)
	for _, id := range ids {
		f := st.ByID(id)
		if f.Req == reqOptional && !o.SetOptionalBitmap {
			continue
		}
		w := false
		switch f.Req {
		case reqRequired:
			if !o.WriteRequire {
				return nil, f
			}
			w = true
		case reqDefault:
			w = o.WriteDefault
		case reqOptional:
			w = o.WriteOptional || (f.Default != nil && o.UseDefaultValue)
		}
		if !w {
			continue
		}
		if useDefaults && f.Default != nil && o.UseDefaultValue {
			write = append(write, TFieldVal{F: f, V: f.Default})
		} else {
			write = append(write, TFieldVal{F: f, V: zeroVal(f.T)})
		}
	}
	return
}

func hasTrackedOptionalDefault(sch *TSchema, o writeOpts) bool {
	if !o.SetOptionalBitmap || !o.UseDefaultValue {
		return false
	}
	for _, st := range sch.Structs {
		for _, f := range st.Fields {
			if f.Req == reqOptional && f.Default != nil {
				return true
			}
		}
	}
	return false
}

func schemaHasAlias(sch *TSchema) bool {
	for _, st := range sch.Structs {
		for _, f := range st.Fields {
			if f.Alias != "" {
				return true
			}
		}
	}
	return false
}

func runC16(w *W) {
	t := w.T
	drawJ2TKnobs(w)
	flavour := drawFlavour(w)
	mode := pickInt(t, "c16.mode", 0, 0, 1, 1, 2) // 0 j2t, 1 t2j, 2 cutting

	so := tgenOpts{MaxStructs: 1 + t.Intn(4, "sch.structs"), MaxFields: 1 + t.Intn(8, "sch.fields"), MaxDepth: 1 + t.Intn(3, "sch.depth"),
		BigIDs: t.Chance(1, 2, "sch.bigids"), ManyFields: t.Chance(1, 5, "sch.wide"), Requiredness: true, Recursive: t.Chance(1, 3, "sch.rec"),
		Defaults: mode != 2 && t.Chance(1, 2, "sch.defaults"), OptionalDefaults: t.Chance(1, 25, "sch.optdefaults"), ConstDefaults: t.Chance(1, 3, "sch.constdefaults"),
		Aliases: mode != 2 && t.Chance(1, 20, "sch.alias"), NoBinary: true, StructMapKeys: mode == 2 && t.Chance(1, 2, "sch.structkeys")}
	// deep worlds: long chains of nested structs with wide requires-bitmaps over a small bitmap arena, so
	// that one conversion outgrows the arena several times while outer levels are still open
	deep := mode == 0 && t.Chance(1, 8, "c16.deep")
	if deep {
		so.Recursive, so.ForceSelf, so.BigIDs = true, true, true
		knobs.ReqsCap = pickInt(t, "deep.reqscap", 0, 8, 64, 256, -1)
		w.World.GCNum, w.World.GCDen, w.World.GCBudget = 1, pickInt(t, "deep.gcden", 2, 4, 16), 12
		w.Sig(fmt.Sprintf("deep:reqs%d", knobs.ReqsCap))
	}
	so.SplitFiles = !so.ConstDefaults && t.Chance(1, 4, "sch.split")
	so.Typedefs, so.ZeroID = t.Chance(1, 3, "sch.typedefs"), t.Chance(1, 4, "sch.zeroid")
	sch := genSchema(t, so)
	if deep && t.Chance(1, 2, "deep.reqscap.exact") {
		// an arena that the bitmaps of the first k levels of the chain fill exactly
		maxID := 0
		for _, f := range sch.Root.St.Fields {
			if f.ID > maxID {
				maxID = f.ID
			}
		}
		knobs.ReqsCap = (1 + t.Intn(4, "deep.reqscap.k")) * (maxID/64 + 1) * 8
	}
	po := thrift.Options{UseDefaultValue: so.Defaults && t.Chance(2, 3, "parse.usedefault"), SetOptionalBitmap: mode != 2 && t.Chance(1, 2, "parse.optbitmap")}
	desc := parseThrift(w, sch, po)
	w.Logf("mode=%d flavour=%s parse options: %+v\nIDL:\n%s", mode, flavour, po, sch.IDL)

	wo := writeOpts{WriteRequire: t.Chance(1, 2, "opt.wr"), WriteDefault: t.Chance(1, 2, "opt.wd"), WriteOptional: t.Chance(1, 2, "opt.wo"),
		DisallowUnknown: t.Chance(1, 3, "opt.disallow"), SetOptionalBitmap: po.SetOptionalBitmap, UseDefaultValue: po.UseDefaultValue}
	w.Sig(fmt.Sprintf("mode%d:wr%v/wd%v/wo%v/du%v/ob%v/dv%v", mode, wo.WriteRequire, wo.WriteDefault, wo.WriteOptional, wo.DisallowUnknown, wo.SetOptionalBitmap, wo.UseDefaultValue))
	baseFacts := map[string]string{"mode": fmt.Sprint(mode), "tracked_optional_default": fmt.Sprint(hasTrackedOptionalDefault(sch, wo) && !wo.WriteOptional), "has_alias": fmt.Sprint(schemaHasAlias(sch))}

	ndocs := 1 + t.Intn(4, "ndocs")
	for d := 0; d < ndocs; d++ {
		vo := vgenOpts{MaxElems: 1 + t.Intn(6, "val.elems"), MaxStr: 1 + sizeClass(t, "val.maxstr", 300), Depth: 1 + t.Intn(4, "val.depth"),
			PresentPct: pickInt(t, "val.present", 50, 100, 20, 0, 80), NullPct: pickInt(t, "val.null", 0, 20, 50), UnknownPct: pickInt(t, "val.unknown", 0, 0, 15),
			Shuffle: true, DropRequiredPct: pickInt(t, "val.dropreq", 0, 0, 10, 40), NoNullOptional: po.SetOptionalBitmap}
		if mode != 0 {
			vo.NullPct = 0
			vo.UnknownPct = 0
		}
		if deep {
			vo.Depth, vo.DeepSelf, vo.MaxElems = 3+t.Intn(12, "deep.depth"), 90, 1+t.Intn(2, "deep.elems")
		}
		vg := &vgen{t: t, o: vo}
		val := vg.value(sch.Root, vo.Depth)
		switch mode {
		case 0:
			c16J2T(w, sch, desc, val, wo, baseFacts, d)
		case 1:
			c16T2J(w, sch, desc, val, wo, baseFacts, d)
		default:
			c16Cut(w, sch, desc, val, wo, baseFacts, d)
		}
	}
	w.sample = map[string]interface{}{"mode": mode, "parse": fmt.Sprintf("%+v", po), "write": fmt.Sprintf("%+v", wo), "docs": ndocs}
}

func copyFacts(m map[string]string) map[string]string {
	o := map[string]string{}
	for _, k := range sortedFactKeys(m) {
		o[k] = m[k]
	}
	return o
}

func sortedFactKeys(m map[string]string) []string {
	ks := make([]string, 0, len(m))
	for k := range m {
		ks = append(ks, k)
	}
	sortStrings(ks)
	return ks
}

// ---- JSON -> Thrift

func c16J2T(w *W, sch *TSchema, desc *thrift.TypeDescriptor, val *TVal, wo writeOpts, baseFacts map[string]string, d int) {
	t := w.T
	opts := conv.Options{WriteRequireField: wo.WriteRequire, WriteDefaultField: wo.WriteDefault, WriteOptionalField: wo.WriteOptional, DisallowUnknownField: wo.DisallowUnknown}
	cv := j2t.NewBinaryConv(opts)
	if t.Chance(1, 4, "reopt.use") {
		// the converter starts life with other options and gets these by SetOptions
		cv = j2t.NewBinaryConv(otherOpts(t, opts))
		cv.SetOptions(opts)
		w.Count("converter_reconfigured_by_SetOptions")
	}
	ctx := context.Background()
	style := &jsonStyle{t: t, WS: t.Intn(3, "js.ws"), Esc: t.Intn(2, "js.esc"), Num: 0}
	js := style.render(val)
	stopMarks = stopMarks[:0]
	exp, experr := expectJ2T(nil, val, wo)
	stops := append([]int{}, stopMarks...)
	w.Logf("doc %d (%d bytes -> %d, experr=%d): %s", d, len(js), len(exp), experr, clip(js, 500))

	// a failing conversion right before the checked one leaves FSM / bitmaps half-updated
	if t.Chance(1, 3, "c16.prefail") {
		w.NextOp("j2t pre-failing conversion")
		bad := append([]byte{}, js[:len(js)/2]...)
		var buf []byte
		_ = cv.DoInto(ctx, desc, bad, &buf)
		w.Count("prefail_conversion")
	}
	nenv := 1 + t.Intn(3, "nenv")
	for k := 0; k < nenv; k++ {
		env := drawJ2TEnvAt(w, exp, len(js), stops)
		w.NextOp(fmt.Sprintf("j2t doc %d env %s", d, env))
		facts := copyFacts(baseFacts)
		facts["last_member_null"] = fmt.Sprint(lastMemberNull(val))
		w.opFacts = facts
		r := runJ2T(w, &cv, desc, js, env, ctx)
		w.opFacts = nil
		w.T.NoteBytes(r.Out)
		facts["env"] = env.String()
		switch experr {
		case expMissingRequired:
			if r.Err == nil {
				w.Failf("missing-required-accepted", facts, "a required field is absent/null and WriteRequireField is off, but conversion succeeded (env %s)\njson: %s\n out: %x", env, clip(js, 400), clipb(r.Out, 300))
			}
			if !isErrCode(r.Err, meta.ErrMissRequiredField) {
				w.Failf("missing-required-wrong-error", facts, "expected a missing-required-field error, got %s: %v", errClass(r.Err), r.Err)
			}
			w.Count("j2t_missing_required_rejected")
		case expUnknownField:
			if r.Err == nil {
				w.Failf("unknown-accepted", facts, "unknown member + DisallowUnknownField but conversion succeeded (env %s)", env)
			}
			w.Count("j2t_unknown_rejected")
		default:
			if r.Err != nil {
				w.Failf("conforming-rejected", facts, "conversion failed (env %s): %v\njson: %s", env, r.Err, clip(js, 400))
			}
			if !bytes.Equal(r.Out, exp) {
				facts["diff"] = diffShape(r.Out, exp)
				facts["null_header_residue"] = fmt.Sprint(nullHeaderResidue(r.Out, exp, val, wo))
				wo2 := wo
				wo2.NoOptionalDefaultRule = true
				exp2, _ := expectJ2T(nil, val, wo2)
				facts["equals_model_without_optional_default_clause"] = fmt.Sprint(bytes.Equal(r.Out, exp2))
				w.Failf("wrong-bytes", facts, "requiredness truth table violated (env %s)\n got: %x\nwant: %x\njson: %s", env, clipb(r.Out, 400), clipb(exp, 400), clip(js, 400))
			}
			w.Count("j2t_ok")
		}
	}
}

// ---- Thrift -> JSON

func addUnknownThriftFields(t *simrt.Tape, v *TVal) int {
	n := 0
	if v == nil {
		return 0
	}
	switch v.T.Kind {
	case tSTRUCT:
		for _, fv := range v.Fields {
			if fv.F != nil {
				n += addUnknownThriftFields(t, fv.V)
			}
		}
		if t.Chance(1, 4, "unk.thrift") {
			id := 20000 + t.Intn(12000, "unk.id")
			if v.T.St.ByID(id) == nil {
				raws := [][]byte{{tI32, byte(id >> 8), byte(id), 0, 0, 0, 7}, {tSTRING, byte(id >> 8), byte(id), 0, 0, 0, 2, 'h', 'i'}, {tSTRUCT, byte(id >> 8), byte(id), tBOOL, 0, 1, 1, 0}, {tLIST, byte(id >> 8), byte(id), tBYTE, 0, 0, 0, 2, 1, 2},
					// containers of fixed-size elements with 0, 2 and 3 entries (skipped by size arithmetic, not element-wise)
					{tMAP, byte(id >> 8), byte(id), tI32, tI64, 0, 0, 0, 2, 0, 0, 0, 1, 0, 0, 0, 0, 0, 0, 0, 5, 0, 0, 0, 2, 0, 0, 0, 0, 0, 0, 0, 6},
					{tMAP, byte(id >> 8), byte(id), tBYTE, tBOOL, 0, 0, 0, 3, 1, 1, 2, 0, 3, 1},
					{tMAP, byte(id >> 8), byte(id), tI16, tDOUBLE, 0, 0, 0, 0},
					{tLIST, byte(id >> 8), byte(id), tI64, 0, 0, 0, 3, 0, 0, 0, 0, 0, 0, 0, 1, 0, 0, 0, 0, 0, 0, 0, 2, 0, 0, 0, 0, 0, 0, 0, 3},
					{tSET, byte(id >> 8), byte(id), tI32, 0, 0, 0, 2, 0, 0, 0, 9, 0, 0, 0, 8},
					{tMAP, byte(id >> 8), byte(id), tSTRING, tI32, 0, 0, 0, 2, 0, 0, 0, 1, 'a', 0, 0, 0, 1, 0, 0, 0, 2, 'b', 'c', 0, 0, 0, 2}}
				fv := TFieldVal{UnknownKey: fmt.Sprintf("#%d", id), UnknownRaw: raws[t.Intn(len(raws), "unk.raw")]}
				pos := t.Intn(len(v.Fields)+1, "unk.pos")
				v.Fields = append(v.Fields, TFieldVal{})
				copy(v.Fields[pos+1:], v.Fields[pos:])
				v.Fields[pos] = fv
				n++
			}
		}
	case tLIST, tSET:
		for _, e := range v.List {
			n += addUnknownThriftFields(t, e)
		}
	case tMAP:
		for _, e := range v.Vals {
			n += addUnknownThriftFields(t, e)
		}
	}
	return n
}

// firstMissingRequired walks the value in wire order and reports whether some struct instance lacks a required field.
func anyMissingRequired(v *TVal) bool {
	if v == nil {
		return false
	}
	switch v.T.Kind {
	case tSTRUCT:
		present := map[int]bool{}
		for _, fv := range v.Fields {
			if fv.F != nil && fv.V != nil {
				present[fv.F.ID] = true
				if anyMissingRequired(fv.V) {
					return true
				}
			}
		}
		for _, f := range v.T.St.Fields {
			if f.Req == reqRequired && !present[f.ID] {
				return true
			}
		}
	case tLIST, tSET:
		for _, e := range v.List {
			if anyMissingRequired(e) {
				return true
			}
		}
	case tMAP:
		for _, e := range v.Vals {
			if anyMissingRequired(e) {
				return true
			}
		}
	}
	return false
}

func c16T2J(w *W, sch *TSchema, desc *thrift.TypeDescriptor, val *TVal, wo writeOpts, baseFacts map[string]string, d int) {
	t := w.T
	nunk := 0
	if t.Chance(1, 3, "c16.unknowns") {
		nunk = addUnknownThriftFields(t, val)
	}
	src := encodeThrift(nil, val)
	opts := conv.Options{WriteRequireField: wo.WriteRequire, WriteDefaultField: wo.WriteDefault, WriteOptionalField: wo.WriteOptional, DisallowUnknownField: wo.DisallowUnknown}
	cv := t2j.NewBinaryConv(opts)
	if t.Chance(1, 4, "reopt.use") {
		// the converter starts life with other options and gets these by SetOptions
		cv = t2j.NewBinaryConv(otherOpts(t, opts))
		cv.SetOptions(opts)
		w.Count("converter_reconfigured_by_SetOptions")
	}
	ctx := context.Background()
	missing := anyMissingRequired(val) && !wo.WriteRequire
	w.Logf("msg %d (%d bytes, unknown=%d, missingRequired=%v): %x", d, len(src), nunk, missing, clipb(src, 300))
	jo := t2jOpts{}
	unset := func(path string, st *TStruct, present map[int]bool) (map[string]*TVal, bool) {
		wr, miss := unsetPlan(st, present, wo, true)
		m := map[string]*TVal{}
		for _, fv := range wr {
			m[fv.F.Key()] = fv.V
		}
		return m, miss != nil
	}
	expLen := 0
	var first []byte
	nenv := 1 + t.Intn(3, "nenv")
	for k := 0; k < nenv; k++ {
		env := drawT2JEnv(w)
		w.NextOp(fmt.Sprintf("t2j msg %d env %s", d, env))
		facts := copyFacts(baseFacts)
		w.opFacts = facts
		r := runT2J(w, &cv, desc, src, env, ctx, expLen)
		w.opFacts = nil
		w.T.NoteBytes(r.Out)
		facts["env"] = env.String()
		switch {
		case nunk > 0 && wo.DisallowUnknown:
			if r.Err == nil {
				w.Failf("unknown-accepted", facts, "message has an unknown field and DisallowUnknownField is set, but conversion succeeded: %s", clip(r.Out, 300))
			}
			w.Count("t2j_unknown_rejected")
		case missing:
			if r.Err == nil {
				w.Failf("missing-required-accepted", facts, "a required field is absent and WriteRequireField is off, but conversion succeeded: %s", clip(r.Out, 300))
			}
			w.Count("t2j_missing_required_rejected")
		default:
			if r.Err != nil {
				w.Failf("conforming-rejected", facts, "t2j failed (env %s): %v", env, r.Err)
			}
			parsed, perr := parseJSONStrict(r.Out)
			if perr != nil {
				w.Failf("invalid-json", facts, "t2j returned malformed JSON with nil error (env %s): %v\n%s", env, perr, clip(r.Out, 500))
			}
			if dk := objectKeysDup(r.Out); dk != "" {
				w.Failf("duplicate-member", facts, "t2j emitted member %q twice: %s", dk, clip(r.Out, 500))
			}
			if diff := cmpJSON("$", parsed, val, jo, unset); diff != "" {
				w.Failf("wrong-json", facts, "requiredness truth table violated (env %s): %s\njson: %s", env, diff, clip(r.Out, 600))
			}
			if first == nil {
				first = append([]byte{}, r.Out...)
				expLen = len(first)
			} else if !bytes.Equal(first, r.Out) {
				w.Failf("env-dependent", facts, "same message, different JSON under env %s:\n%s\nvs\n%s", env, clip(first, 300), clip(r.Out, 300))
			}
			w.Count("t2j_ok")
		}
	}
}

// ---- cutting (generic.Value.MarshalTo) onto a structurally identical descriptor

func c16Cut(w *W, sch *TSchema, desc *thrift.TypeDescriptor, val *TVal, wo writeOpts, baseFacts map[string]string, d int) {
	t := w.T
	to := parseThrift(w, sch, thrift.Options{})
	nunk := 0
	if t.Chance(1, 3, "c16.unknowns") {
		nunk = addUnknownThriftFields(t, val)
	}
	src := encodeThrift(nil, val)
	gopts := &generic.Options{WriteDefault: wo.WriteDefault, DisallowUnknow: wo.DisallowUnknown}
	if !wo.WriteDefault && t.Chance(1, 3, "cut.nocheck") {
		gopts.NotCheckRequireNess = true
	}
	gopts.UseNativeSkip = t.Chance(1, 2, "cut.nativeskip")
	w.NextOp(fmt.Sprintf("MarshalTo msg %d opts %+v", d, *gopts))
	facts := copyFacts(baseFacts)
	w.opFacts = facts
	in := w.AllocData(src, pickInt(t, "cut.inplace", simrt.PlaceHeap, simrt.PlaceGuardEnd, simrt.PlaceReadOnly))
	v := generic.NewValue(desc, in.B)
	out, err := v.MarshalTo(to, gopts)
	w.opFacts = nil
	w.T.NoteBytes(out)
	// model
	var model func(v *TVal) (*TVal, string)
	model = func(v *TVal) (*TVal, string) {
		switch v.T.Kind {
		case tSTRUCT:
			o := &TVal{T: v.T}
			present := map[int]bool{}
			for _, fv := range v.Fields {
				if fv.F == nil {
					if gopts.DisallowUnknow {
						return nil, "unknown"
					}
					continue
				}
				c, e := model(fv.V)
				if e != "" {
					return nil, e
				}
				present[fv.F.ID] = true
				o.Fields = append(o.Fields, TFieldVal{F: fv.F, V: c})
			}
			if !gopts.NotCheckRequireNess {
				cw := writeOpts{WriteDefault: gopts.WriteDefault}
				wr, miss := unsetPlan(v.T.St, present, cw, false)
				if miss != nil {
					return nil, "missing"
				}
				o.Fields = append(o.Fields, wr...)
			}
			return o, ""
		case tLIST, tSET:
			o := &TVal{T: v.T}
			for _, e := range v.List {
				c, er := model(e)
				if er != "" {
					return nil, er
				}
				o.List = append(o.List, c)
			}
			return o, ""
		case tMAP:
			o := &TVal{T: v.T}
			for i := range v.Keys {
				c, er := model(v.Vals[i])
				if er != "" {
					return nil, er
				}
				k := v.Keys[i]
				if k.T.Kind == tSTRUCT {
					var ke string
					if k, ke = model(k); ke != "" {
						return nil, ke
					}
				}
				o.Keys = append(o.Keys, k)
				o.Vals = append(o.Vals, c)
			}
			return o, ""
		}
		return v, ""
	}
	want, werr := model(val)
	_ = nunk
	switch werr {
	case "unknown":
		if err == nil {
			w.Failf("cut-unknown-accepted", facts, "unknown field + DisallowUnknow but MarshalTo succeeded")
		}
		w.Count("cut_unknown_rejected")
	case "missing":
		if err == nil {
			w.Failf("cut-missing-required-accepted", facts, "required field absent but MarshalTo succeeded: %x", clipb(out, 200))
		}
		w.Count("cut_missing_required_rejected")
	default:
		if err != nil {
			w.Failf("cut-conforming-rejected", facts, "MarshalTo failed: %v\nsrc: %x", err, clipb(src, 300))
		}
		exp := encodeThriftZero(nil, want)
		if !bytes.Equal(out, exp) {
			w.Failf("cut-wrong-bytes", facts, "MarshalTo output differs from the model (opts %+v)\n got: %x\nwant: %x\n src: %x", *gopts, clipb(out, 400), clipb(exp, 400), clipb(src, 400))
		}
		w.Count("cut_ok")
	}
	if !bytes.Equal(in.B, src) {
		w.Failf("input-modified", facts, "MarshalTo modified its input")
	}
}

// encodeThriftZero is encodeThrift that understands Zero values of container/struct types.
func encodeThriftZero(b []byte, v *TVal) []byte {
	if v.Zero {
		return encodeZero(b, v.T)
	}
	switch v.T.Kind {
	case tSTRUCT:
		for _, fv := range v.Fields {
			if fv.F == nil || fv.V == nil {
				continue
			}
			b = append(b, fv.F.T.Kind, byte(fv.F.ID>>8), byte(fv.F.ID))
			b = encodeThriftZero(b, fv.V)
		}
		return append(b, 0)
	case tLIST, tSET:
		b = append(b, v.T.Elem.Kind, byte(len(v.List)>>24), byte(len(v.List)>>16), byte(len(v.List)>>8), byte(len(v.List)))
		for _, e := range v.List {
			b = encodeThriftZero(b, e)
		}
		return b
	case tMAP:
		n := len(v.Keys)
		b = append(b, v.T.Key.Kind, v.T.Elem.Kind, byte(n>>24), byte(n>>16), byte(n>>8), byte(n))
		for i := range v.Keys {
			b = encodeThrift(b, v.Keys[i])
			b = encodeThriftZero(b, v.Vals[i])
		}
		return b
	}
	return encodeThrift(b, v)
}
