package main

import (
	"reflect"

	"github.com/cloudwego/dynamicgo/conv"
	"github.com/cloudwego/dynamicgo/internal/simrt"
)

// otherOpts returns opts with a tape-chosen, non-empty set of its boolean switches flipped (one switch in
// half of the cases). A converter that is built with the result and then given opts by SetOptions has to
// behave exactly like one built with opts: nothing derived from the first option set may survive.
func otherOpts(t *simrt.Tape, opts conv.Options) conv.Options {
	o := opts
	v := reflect.ValueOf(&o).Elem()
	var bools []int
	for i := 0; i < v.NumField(); i++ {
		if v.Field(i).Kind() == reflect.Bool {
			bools = append(bools, i)
		}
	}
	flip := func(i int) { f := v.Field(bools[i]); f.SetBool(!f.Bool()) }
	if t.Chance(1, 2, "reopt.single") {
		flip(t.Intn(len(bools), "reopt.which"))
		return o
	}
	n := 0
	for i := range bools {
		if t.Chance(1, 3, "reopt.flip") {
			flip(i)
			n++
		}
	}
	if n == 0 {
		flip(t.Intn(len(bools), "reopt.which"))
	}
	return o
}
