package main

import (
	"context"
	"fmt"
	"math"
	"sort"
	"strings"

	"github.com/jhump/protoreflect/desc"
	"github.com/jhump/protoreflect/desc/protoparse"
	"github.com/jhump/protoreflect/dynamic"
	"google.golang.org/protobuf/encoding/protowire"

	"github.com/cloudwego/dynamicgo/internal/simrt"
	"github.com/cloudwego/dynamicgo/proto"
)

// ---- harness-owned proto3 schema + value model.
//
// The model (PMsgVal) is only a carrier of tape-chosen values; every byte of a reference encoding
// and every reference decode is done by jhump/protoreflect's dynamic.Message over protobuf-go.

type pKind uint8

const (
	pkInt32 pKind = iota
	pkString
	pkInt64
	pkUint32
	pkUint64
	pkBool
	pkDouble
	pkBytes
	pkSint32
	pkSint64
	pkFixed32
	pkFixed64
	pkSfixed32
	pkSfixed64
	pkFloat
	pkEnum
	pkMessage
	nPKind
)

var pkNames = [nPKind]string{"int32", "string", "int64", "uint32", "uint64", "bool", "double", "bytes", "sint32", "sint64",
	"fixed32", "fixed64", "sfixed32", "sfixed64", "float", "enum", "message"}

func (k pKind) String() string { return pkNames[k] }

func (k pKind) is64() bool {
	return k == pkInt64 || k == pkUint64 || k == pkSint64 || k == pkFixed64 || k == pkSfixed64
}
func (k pKind) isUnsigned() bool {
	return k == pkUint32 || k == pkUint64 || k == pkFixed32 || k == pkFixed64
}
func (k pKind) isSignedInt() bool {
	return k == pkInt32 || k == pkInt64 || k == pkSint32 || k == pkSint64 || k == pkSfixed32 || k == pkSfixed64
}
func (k pKind) isInt() bool { return k.isSignedInt() || k.isUnsigned() }

// packable: proto3 packs repeated fields of every scalar kind except string/bytes (and messages).
func (k pKind) packable() bool { return k != pkString && k != pkBytes && k != pkMessage }

const (
	cSingle = iota
	cRepeated
	cMap
)

type PEnum struct {
	Name   string
	Names  []string
	Values []int32 // Values[0] == 0
}

type PField struct {
	Num     int
	Name    string
	JSONOpt string // explicit json_name option ("" = none)
	// Unpacked: a repeated scalar field declared [packed = false] (the reference encoder writes one record per element)
	Unpacked bool
	JSON     string // JSON name according to the reference descriptor (filled after parsing)
	Card     int
	K        pKind // element / map-value kind
	KeyK     pKind // map key kind
	Msg      *PMsg // K == pkMessage
	Enum     *PEnum
	Idx      int // index in PMsg.Fields
}

func (f *PField) typeText() string {
	base := f.K.String()
	if f.K == pkMessage {
		base = f.Msg.Name
	} else if f.K == pkEnum {
		base = f.Enum.Name
	}
	switch f.Card {
	case cRepeated:
		return "repeated " + base
	case cMap:
		return "map<" + f.KeyK.String() + ", " + base + ">"
	}
	return base
}

// unpackedContainer: the field is written as a run of same-numbered records (unpacked list or map).
func (f *PField) unpackedContainer() bool {
	return f.Card == cMap || (f.Card == cRepeated && (!f.K.packable() || f.Unpacked))
}

type PMsg struct {
	Name   string
	Fields []*PField // ascending field number
	Idx    int
	MD     *desc.MessageDescriptor // reference descriptor
}

func (m *PMsg) ByNum(n int) *PField {
	for _, f := range m.Fields {
		if f.Num == n {
			return f
		}
	}
	return nil
}

type PSchema struct {
	Msgs  []*PMsg // Msgs[0] is the root
	Enums []*PEnum
	Text  string
	FD    *desc.FileDescriptor
}

func (s *PSchema) Root() *PMsg { return s.Msgs[0] }

// ---- values

type PVal struct {
	K pKind
	I int64   // signed ints, enum number, bool (0/1)
	U uint64  // unsigned ints
	F float64 // double; float (always exactly representable as float32)
	S []byte  // string / bytes
	M *PMsgVal
}

type PFieldVal struct {
	Set bool    // singular: present (scalars with the zero value are normalised to absent)
	V   *PVal   // singular
	L   []*PVal // repeated
	MK  []*PVal // map keys (unique), insertion order
	MV  []*PVal // map values
}

type PMsgVal struct {
	T *PMsg
	F []PFieldVal // aligned with T.Fields
}

func newPMsgVal(m *PMsg) *PMsgVal { return &PMsgVal{T: m, F: make([]PFieldVal, len(m.Fields))} }

func (v *PVal) clone() *PVal {
	if v == nil {
		return nil
	}
	c := *v
	if v.S != nil {
		c.S = append([]byte(nil), v.S...)
	}
	if v.M != nil {
		c.M = v.M.clone()
	}
	return &c
}

func cloneVals(l []*PVal) []*PVal {
	if l == nil {
		return nil
	}
	o := make([]*PVal, len(l))
	for i, x := range l {
		o[i] = x.clone()
	}
	return o
}

func (m *PMsgVal) clone() *PMsgVal {
	if m == nil {
		return nil
	}
	c := &PMsgVal{T: m.T, F: make([]PFieldVal, len(m.F))}
	for i, f := range m.F {
		c.F[i] = PFieldVal{Set: f.Set, V: f.V.clone(), L: cloneVals(f.L), MK: cloneVals(f.MK), MV: cloneVals(f.MV)}
	}
	return c
}

func (v *PVal) isZero() bool {
	switch v.K {
	case pkMessage:
		return false
	case pkString, pkBytes:
		return len(v.S) == 0
	case pkDouble, pkFloat:
		return v.F == 0 // -0.0 included: the reference (jhump dynamic) drops it from proto3 singular fields
	}
	if v.K.isUnsigned() {
		return v.U == 0
	}
	return v.I == 0
}

func keyEqual(a, b *PVal) bool {
	if a.K == pkString {
		return string(a.S) == string(b.S)
	}
	if a.K.isUnsigned() {
		return a.U == b.U
	}
	return a.I == b.I
}

func (fv *PFieldVal) findKey(k *PVal) int {
	for i, x := range fv.MK {
		if keyEqual(x, k) {
			return i
		}
	}
	return -1
}

// goValue converts a model value into the Go type dynamic.Message expects.
func (s *PSchema) goValue(v *PVal) interface{} {
	switch v.K {
	case pkInt32, pkSint32, pkSfixed32, pkEnum:
		return int32(v.I)
	case pkInt64, pkSint64, pkSfixed64:
		return v.I
	case pkUint32, pkFixed32:
		return uint32(v.U)
	case pkUint64, pkFixed64:
		return v.U
	case pkBool:
		return v.I != 0
	case pkDouble:
		return v.F
	case pkFloat:
		return float32(v.F)
	case pkString:
		return string(v.S)
	case pkBytes:
		return append([]byte{}, v.S...)
	case pkMessage:
		return s.toDyn(v.M)
	}
	panic("goValue")
}

// toDyn builds the reference message for a model value.
func (s *PSchema) toDyn(mv *PMsgVal) *dynamic.Message {
	dm := dynamic.NewMessage(mv.T.MD)
	for i, f := range mv.T.Fields {
		fv := &mv.F[i]
		switch f.Card {
		case cSingle:
			if fv.Set && fv.V != nil {
				if err := dm.TrySetFieldByNumber(f.Num, s.goValue(fv.V)); err != nil {
					panic(fmt.Sprintf("harness: reference rejects model value for %s.%s: %v", mv.T.Name, f.Name, err))
				}
			}
		case cRepeated:
			for _, e := range fv.L {
				if err := dm.TryAddRepeatedFieldByNumber(f.Num, s.goValue(e)); err != nil {
					panic(fmt.Sprintf("harness: reference rejects model element for %s.%s: %v", mv.T.Name, f.Name, err))
				}
			}
		case cMap:
			for j := range fv.MK {
				if err := dm.TryPutMapFieldByNumber(f.Num, s.goValue(fv.MK[j]), s.goValue(fv.MV[j])); err != nil {
					panic(fmt.Sprintf("harness: reference rejects model entry for %s.%s: %v", mv.T.Name, f.Name, err))
				}
			}
		}
	}
	return dm
}

// refEncode is the reference encoding (deterministic: map entries sorted by key, fields by number).
func (s *PSchema) refEncode(mv *PMsgVal) []byte {
	b, err := s.toDyn(mv).MarshalDeterministic()
	if err != nil {
		panic(fmt.Sprintf("harness: reference encoder failed: %v", err))
	}
	if b == nil {
		b = []byte{}
	}
	return b
}

// refCanon decodes b with the reference implementation and re-encodes it canonically.
// ok=false: the reference implementation rejects b.
func refCanon(md *desc.MessageDescriptor, b []byte) (canon []byte, dm *dynamic.Message, err error) {
	dm = dynamic.NewMessage(md)
	if err = dm.Unmarshal(b); err != nil {
		return nil, nil, err
	}
	canon, err = dm.MarshalDeterministic()
	return
}

// ---- schema generation

type pgenOpts struct {
	MaxMsgs   int
	MaxFields int
	BigNums   bool // multi-byte tags (numbers up to 20000)
	HugeNums  bool // with BigNums: rarely 262143..262145 (4-byte tags)
	Recursive bool
	JSONNames bool // explicit json_name options
	Enums     bool
	// KeyKinds lists the permitted map key kinds (nil: the plain set int32,int64,uint32,uint64,string).
	KeyKinds []pKind
	// SharedNumbers lets different messages reuse field numbers and lets recursion go through
	// repeated/map fields and through any field number. With it off (default) field numbers are unique
	// across the schema and a self reference is singular and carries the message's highest number, so
	// that the record following a nested message never has the number of that message's last field.
	SharedNumbers bool
	NoMaps        bool
	// MsgChance: one in MsgChance fields is message-typed (0: 4).
	MsgChance int
	// UnpackedScalars: some repeated scalar fields are declared [packed = false]
	UnpackedScalars bool
	// NoPackedFixed: no repeated field of a fixed-width kind (fixed32/64, sfixed32/64, float, double).
	NoPackedFixed bool
	// SharedMapNames: map fields of different messages may carry the same name (their synthesized entry messages are
	// then homonymous: M0.ExtraEntry, M1.ExtraEntry) while their key / value types differ.
	SharedMapNames bool
	// RecursiveAnyCard: with Recursive, the self reference may be a repeated field.
	RecursiveAnyCard bool
}

func (k pKind) fixedWidth() bool {
	return k == pkFixed32 || k == pkFixed64 || k == pkSfixed32 || k == pkSfixed64 || k == pkFloat || k == pkDouble
}

var plainKeyKinds = []pKind{pkInt32, pkString, pkInt64, pkUint32, pkUint64}
var oddKeyKinds = []pKind{pkSint32, pkSint64, pkFixed32, pkFixed64, pkSfixed32, pkSfixed64, pkBool}

type pgen struct {
	t    *simrt.Tape
	o    pgenOpts
	s    *PSchema
	used map[int]bool // field numbers in use (schema-wide, or per message with SharedNumbers)
	next int
	fctr int
	// names in use in the message under construction (SharedMapNames)
	msgNames map[string]bool
}

var sharedMapNames = []string{"extra", "labels", "kv_x"}

// The library's descriptor keeps a slice indexed by field number (internal/util.FieldIDMap), i.e.
// 8 bytes x the largest number per message: 2^29-1 costs 4 GiB per message descriptor and cannot be
// simulated. Numbers up to 20000 (1-3 byte tags) are common; 262143..262145 (3/4-byte tag boundary,
// 2 MiB per descriptor) are rare; 5-byte tags are only reached by unknown records (no descriptor).
var bigNums = []int{15, 16, 17, 2047, 2048, 2049, 127, 128, 18999, 20000, 300, 1000, 16383, 16384}
var hugeNums = []int{262143, 262144, 262145}

func (g *pgen) allocNum() int {
	n := g.next
	if g.o.BigNums && g.t.Chance(1, 5, "pf.bignum") {
		n = bigNums[g.t.Intn(len(bigNums), "pf.bignum.v")]
		if g.o.HugeNums && g.t.Chance(1, 6, "pf.hugenum") {
			n = hugeNums[g.t.Intn(len(hugeNums), "pf.hugenum.v")]
		}
	} else if g.t.Chance(1, 4, "pf.gap") {
		n = g.next + g.t.Intn(5, "pf.gap.n")
	}
	for g.used[n] || (n >= 19000 && n <= 19999) || n > 536870911 || n < 1 {
		n++
		if n > 536870911 {
			n = 1
		}
	}
	g.used[n] = true
	if n >= g.next && n < 1<<20 {
		g.next = n + 1
	}
	return n
}

func (g *pgen) scalarKind() pKind {
	n := int(pkEnum)
	if g.o.Enums && len(g.s.Enums) > 0 {
		n = int(pkMessage)
	}
	return pKind(g.t.Intn(n, "pf.kind"))
}

func (g *pgen) keyKind() pKind {
	ks := g.o.KeyKinds
	if len(ks) == 0 {
		ks = plainKeyKinds
	}
	return ks[g.t.Intn(len(ks), "pf.keykind")]
}

func (g *pgen) fieldName(mi int) string {
	g.fctr++
	name := fmt.Sprintf("f%d", g.fctr)
	switch g.t.Intn(4, "pf.name") {
	case 1:
		name += "_ab"
	case 2:
		name += "_x_y9"
	case 3:
		name = "F" + name + "Z"
	}
	return name
}

var jsonNameChars = []string{"a", "b", "Z", "0", "_", " ", ".", "-", "é", "k", "$", "中", "\"", "\\", "\n", "\t", "/", "'"}

func genPSchema(t *simrt.Tape, o pgenOpts) *PSchema {
	g := &pgen{t: t, o: o, s: &PSchema{}, used: map[int]bool{}, next: 1}
	if o.Enums {
		e := &PEnum{Name: "E0", Names: []string{"E0_Z"}, Values: []int32{0}}
		cand := []int32{1, -1, 2, 127, 128, 2147483647, -2147483648, 300}
		n := 1 + t.Intn(4, "pe.n")
		for i := 0; i < n; i++ {
			v := cand[(i+t.Intn(len(cand), "pe.v"))%len(cand)]
			dup := false
			for _, x := range e.Values {
				if x == v {
					dup = true
				}
			}
			if dup {
				continue
			}
			e.Values = append(e.Values, v)
			e.Names = append(e.Names, fmt.Sprintf("E0_V%d", len(e.Values)))
		}
		g.s.Enums = append(g.s.Enums, e)
	}
	nm := 1 + t.Intn(o.MaxMsgs, "ps.msgs")
	for i := 0; i < nm; i++ {
		g.s.Msgs = append(g.s.Msgs, &PMsg{Name: fmt.Sprintf("M%d", i), Idx: i})
	}
	for mi, m := range g.s.Msgs {
		if o.SharedNumbers {
			g.used = map[int]bool{}
			g.next = 1
		}
		nf := 1 + t.Intn(o.MaxFields, "pm.nfields")
		g.msgNames = map[string]bool{}
		var selfRef *PField
		for fi := 0; fi < nf; fi++ {
			f := &PField{Name: g.fieldName(mi)}
			shape := t.Intn(10, "pf.shape")
			switch {
			case shape <= 4:
				f.Card = cSingle
			case shape <= 7:
				f.Card = cRepeated
			default:
				f.Card = cMap
				if o.NoMaps {
					f.Card = cRepeated
				}
			}
			// element kind: scalar, or a message reference
			f.K = g.scalarKind()
			mc := o.MsgChance
			if mc == 0 {
				mc = 4
			}
			wantMsg := t.Chance(1, mc, "pf.msg")
			if wantMsg {
				var target *PMsg
				if o.SharedNumbers {
					// any message, any cardinality
					target = g.s.Msgs[t.Intn(nm, "pf.msg.any")]
				} else if o.Recursive && selfRef == nil && t.Chance(1, 4, "pf.msg.self") {
					target = m
					f.Card = cSingle
					if o.RecursiveAnyCard && t.Chance(1, 2, "pf.msg.self.repeated") {
						f.Card = cRepeated
					}
				} else if mi+1 < nm {
					target = g.s.Msgs[mi+1+t.Intn(nm-mi-1, "pf.msg.later")]
				}
				if target != nil {
					f.K = pkMessage
					f.Msg = target
					if o.MsgChance > 0 && f.Card != cSingle && t.Chance(1, 2, "pf.msg.single") {
						f.Card = cSingle
					}
					if target == m && !o.SharedNumbers {
						selfRef = f
					}
				}
			}
			if o.NoPackedFixed && f.Card == cRepeated && f.K.fixedWidth() {
				f.K = pkInt64
			}
			if f.K == pkEnum {
				f.Enum = g.s.Enums[0]
			}
			if f.Card == cMap {
				f.KeyK = g.keyKind()
				if o.SharedMapNames && t.Chance(1, 2, "pf.sharedname") {
					if n := sharedMapNames[t.Intn(len(sharedMapNames), "pf.sharedname.which")]; !g.msgNames[n] {
						g.msgNames[n] = true
						f.Name = n
					}
				}
			}
			if o.UnpackedScalars && f.Card == cRepeated && f.K.packable() && t.Chance(1, 3, "pf.unpacked") {
				f.Unpacked = true
			}
			if o.JSONNames && t.Chance(1, 4, "pf.jsonname") {
				n := 1 + t.Intn(5, "pf.jsonname.len")
				var sb strings.Builder
				for i := 0; i < n; i++ {
					sb.WriteString(jsonNameChars[t.Intn(len(jsonNameChars), "pf.jsonname.ch")])
				}
				f.JSONOpt = sb.String() + fmt.Sprintf("%d", g.fctr) // unique
			}
			if f != selfRef {
				f.Num = g.allocNum()
				m.Fields = append(m.Fields, f)
			}
		}
		sort.SliceStable(m.Fields, func(i, j int) bool { return m.Fields[i].Num < m.Fields[j].Num })
		if selfRef != nil {
			// highest number of the message
			hi := 0
			for _, f := range m.Fields {
				if f.Num > hi {
					hi = f.Num
				}
			}
			n := hi + 1
			for g.used[n] || (n >= 19000 && n <= 19999) {
				n++
			}
			if n > 536870911 {
				selfRef = nil
			} else {
				g.used[n] = true
				if n >= g.next && n < 1<<20 {
					g.next = n + 1
				}
				selfRef.Num = n
				m.Fields = append(m.Fields, selfRef)
			}
		}
		for i, f := range m.Fields {
			f.Idx = i
		}
	}
	g.s.Text = renderProto(g.s)
	return g.s
}

func protoQuote(s string) string {
	var sb strings.Builder
	sb.WriteByte('"')
	for _, c := range []byte(s) {
		if c == '"' || c == '\\' {
			sb.WriteByte('\\')
			sb.WriteByte(c)
		} else if c < 0x20 || c >= 0x7f {
			fmt.Fprintf(&sb, "\\x%02x", c)
		} else {
			sb.WriteByte(c)
		}
	}
	sb.WriteByte('"')
	return sb.String()
}

func renderProto(s *PSchema) string {
	var sb strings.Builder
	sb.WriteString("syntax = \"proto3\";\npackage sim;\n")
	for _, e := range s.Enums {
		fmt.Fprintf(&sb, "enum %s {\n", e.Name)
		for i := range e.Values {
			fmt.Fprintf(&sb, "  %s = %d;\n", e.Names[i], e.Values[i])
		}
		sb.WriteString("}\n")
	}
	for _, m := range s.Msgs {
		fmt.Fprintf(&sb, "message %s {\n", m.Name)
		for _, f := range m.Fields {
			fmt.Fprintf(&sb, "  %s %s = %d", f.typeText(), f.Name, f.Num)
			var fo []string
			if f.JSONOpt != "" {
				fo = append(fo, "json_name="+protoQuote(f.JSONOpt))
			}
			if f.Unpacked {
				fo = append(fo, "packed=false")
			}
			if len(fo) > 0 {
				sb.WriteString(" [" + strings.Join(fo, ", ") + "]")
			}
			sb.WriteString(";\n")
		}
		sb.WriteString("}\n")
	}
	fmt.Fprintf(&sb, "service S {\n  rpc Call(%s) returns (%s);\n}\n", s.Msgs[0].Name, s.Msgs[0].Name)
	return sb.String()
}

// parseProto parses the schema text with the library (-> its descriptor of the root message) and
// with protoparse (-> reference descriptors).
func parseProto(w *W, s *PSchema) *proto.TypeDescriptor {
	svc, err := proto.Options{}.NewDesccriptorFromContent(context.Background(), "sim.proto", s.Text, map[string]string{})
	if err != nil {
		w.Failf("harness-idl", nil, "generated schema does not parse (library): %v\n%s", err, s.Text)
	}
	mt := svc.LookupMethodByName("Call")
	if mt == nil || mt.Input() == nil {
		w.Failf("harness-idl", nil, "no method Call")
	}
	p := protoparse.Parser{Accessor: protoparse.FileContentsFromMap(map[string]string{"sim.proto": s.Text})}
	fds, err := p.ParseFiles("sim.proto")
	if err != nil {
		w.Failf("harness-idl", nil, "generated schema does not parse (protoparse): %v\n%s", err, s.Text)
	}
	s.FD = fds[0]
	for _, m := range s.Msgs {
		m.MD = s.FD.FindMessage("sim." + m.Name)
		if m.MD == nil {
			w.Failf("harness-idl", nil, "message %s missing in reference descriptor", m.Name)
		}
		for _, f := range m.Fields {
			fd := m.MD.FindFieldByNumber(int32(f.Num))
			if fd == nil {
				w.Failf("harness-idl", nil, "field %d missing in reference descriptor", f.Num)
			}
			f.JSON = fd.GetJSONName()
		}
	}
	return mt.Input()
}

// ---- value generation

type pvgenOpts struct {
	MaxElems   int
	MaxStr     int
	Depth      int
	PresentPct int
	// U64High permits uint64/fixed64 values >= 2^63.
	U64High bool
	// Fix32High permits fixed32 values >= 2^31.
	Fix32High bool
	// NonFinite permits NaN/+Inf/-Inf in float/double fields.
	NonFinite bool
	// EmptyMsgs permits a present nested message without any field on the wire.
	EmptyMsgs bool
	// KeyMaxInt63 keeps unsigned 64-bit map keys below 2^63 (the generic API addresses keys by Go int).
	KeyMaxInt63 bool
	NoNegZero   bool
	MaxNodes    int // value budget (0: default 120)
	// MsgPresentPct: presence of singular message fields (0: PresentPct).
	MsgPresentPct int
}

type pvgen struct {
	t *simrt.Tape
	o pvgenOpts
	s *PSchema
	// facts about what was generated
	UsedU64High, UsedFix32High, UsedNonFinite, UsedEmptyMsg bool
	// budgets keep worlds small: values still to generate, payload bytes still to spend
	nodes, payload int
}

var strAlphabets = [][]string{
	{"a", "b", "c", "x", "y", "Z", "0", "9", " ", "_"},
	{"a", "\"", "b", "\\", "c", "\n", "d", "\t", "e", "\x01", "/", "\x7f", "<", "&"},
	{"\"", "\\", "\x00", "\x1f", "\n", "\r", "\b", "\f"},
	{"é", "a", "中", "😀", " ", "ß", " ", "z", "߿", "￿"},
}

// str builds a valid UTF-8 string of about n bytes from a tape-chosen alphabet walk (three draws,
// not one per byte, so that long strings stay cheap on the tape).
func (g *pvgen) str(n int, label string) []byte {
	if n <= 0 {
		return []byte{}
	}
	al := strAlphabets[g.t.Intn(len(strAlphabets), label+".alpha")]
	start := g.t.Intn(len(al), label+".start")
	step := 1 + g.t.Intn(3, label+".step")
	b := make([]byte, 0, n+4)
	for i := 0; len(b) < n; i++ {
		p := al[(start+i*step)%len(al)]
		if len(b)+len(p) > n && len(b) > 0 {
			// fill with single-byte characters to hit the requested size exactly
			for len(b) < n {
				b = append(b, 'q')
			}
			break
		}
		b = append(b, p...)
	}
	return b
}

func (g *pvgen) bytesVal(n int, label string) []byte {
	if n <= 0 {
		return []byte{}
	}
	start := g.t.Intn(256, label+".b0")
	step := g.t.Intn(7, label+".bstep")
	b := make([]byte, n)
	for i := range b {
		b[i] = byte(start + i*step*37)
	}
	return b
}

func (g *pvgen) scalar(k pKind, f *PField, label string) *PVal {
	t := g.t
	v := &PVal{K: k}
	switch k {
	case pkBool:
		v.I = int64(t.Intn(2, label+".bool"))
	case pkEnum:
		v.I = int64(f.Enum.Values[t.Intn(len(f.Enum.Values), label+".enum")])
	case pkInt32, pkSint32, pkSfixed32:
		switch t.Intn(7, label+".i32cls") {
		case 0:
			v.I = int64(t.Intn(10, label+".small"))
		case 1:
			v.I = -int64(1 + t.Intn(10, label+".negsmall"))
		case 2:
			v.I = math.MinInt32
		case 3:
			v.I = math.MaxInt32
		case 4:
			v.I = int64(pickInt(t, label+".bnd", 63, 64, -64, -65, 127, 128, 8191, 8192, 16383, 16384, -128, -129, 1<<20, 1<<21-1, 1<<28-1, 1<<28))
		default:
			v.I = int64(int32(t.Draw(1<<32, label+".i32")))
		}
	case pkInt64, pkSint64, pkSfixed64:
		switch t.Intn(7, label+".i64cls") {
		case 0:
			v.I = int64(t.Intn(10, label+".small"))
		case 1:
			v.I = -int64(1 + t.Intn(10, label+".negsmall"))
		case 2:
			v.I = math.MinInt64
		case 3:
			v.I = math.MaxInt64
		case 4:
			v.I = []int64{1 << 31, -(1 << 31) - 1, 1 << 32, 1<<53 + 1, -(1 << 53) - 1, 1 << 56, 1<<62 - 1, -(1 << 62), 9007199254740993, 127, 128}[t.Intn(11, label+".bnd")]
		default:
			v.I = int64(t.Draw(math.MaxUint64, label+".i64"))
		}
	case pkUint32, pkFixed32:
		switch t.Intn(6, label+".u32cls") {
		case 0:
			v.U = uint64(t.Intn(10, label+".small"))
		case 1:
			v.U = math.MaxUint32
		case 2:
			v.U = 1 << 31
		case 3:
			v.U = 1<<31 - 1
		case 4:
			v.U = uint64(pickInt(t, label+".bnd", 127, 128, 16383, 16384, 1<<21, 1<<28, 1<<31+1, 3000000000))
		default:
			v.U = t.Draw(1<<32, label+".u32")
		}
		if k == pkFixed32 && v.U >= 1<<31 {
			if g.o.Fix32High {
				g.UsedFix32High = true
			} else {
				v.U &= 1<<31 - 1
			}
		}
	case pkUint64, pkFixed64:
		switch t.Intn(7, label+".u64cls") {
		case 0:
			v.U = uint64(t.Intn(10, label+".small"))
		case 1:
			v.U = 1<<63 - 1
		case 2:
			v.U = 1 << 32
		case 3:
			v.U = []uint64{127, 128, 1 << 53, 1<<53 + 1, 1 << 56, 1<<62 + 5}[t.Intn(6, label+".bnd")]
		case 4:
			v.U = t.Draw(1<<63, label+".u63")
		case 5:
			if g.o.U64High {
				v.U = []uint64{1 << 63, math.MaxUint64, 1<<63 + 1, 18446744073709551557}[t.Intn(4, label+".high")]
			} else {
				v.U = uint64(1000 + t.Intn(1000, label+".mid"))
			}
		default:
			if g.o.U64High {
				v.U = 1<<63 | t.Draw(1<<63, label+".u64hi")
			} else {
				v.U = t.Draw(1<<62, label+".u62")
			}
		}
		if v.U >= 1<<63 {
			g.UsedU64High = true
		}
	case pkDouble:
		switch t.Intn(8, label+".f64cls") {
		case 0:
			v.F = float64(t.Intn(10, label+".small"))
		case 1:
			v.F = -float64(1+t.Intn(1000, label+".q")) / 8
		case 2:
			v.F = []float64{math.MaxFloat64, math.SmallestNonzeroFloat64, -math.MaxFloat64, 1e21, 1e-7, 0.1, 1e20, 123456789012345680, 1.7976931348623157e308, 2.2250738585072014e-308, 5e-324, 0.3}[t.Intn(12, label+".bnd")]
		case 3:
			v.F = math.Float64frombits(t.Draw(math.MaxUint64, label+".bits"))
			if math.IsNaN(v.F) || math.IsInf(v.F, 0) {
				v.F = 1.5
			}
		case 4:
			if g.o.NonFinite {
				v.F = []float64{math.NaN(), math.Inf(1), math.Inf(-1)}[t.Intn(3, label+".nonfinite")]
				g.UsedNonFinite = true
			} else {
				v.F = 2.5
			}
		case 5:
			if !g.o.NoNegZero {
				v.F = math.Copysign(0, -1)
			}
		default:
			v.F = float64(int64(t.Draw(1<<40, label+".int"))) / float64(int64(1)<<uint(t.Intn(20, label+".sh")))
		}
	case pkFloat:
		var f32 float32
		switch t.Intn(7, label+".f32cls") {
		case 0:
			f32 = float32(t.Intn(10, label+".small"))
		case 1:
			f32 = -float32(1+t.Intn(1000, label+".q")) / 8
		case 2:
			f32 = []float32{math.MaxFloat32, math.SmallestNonzeroFloat32, -math.MaxFloat32, 0.1, 1e-7, 16777216, 3.4028235e38, 1.1754944e-38}[t.Intn(8, label+".bnd")]
		case 3:
			f32 = math.Float32frombits(uint32(t.Draw(1<<32, label+".bits")))
			if f32 != f32 || math.IsInf(float64(f32), 0) {
				f32 = 1.5
			}
		case 4:
			if g.o.NonFinite {
				f32 = []float32{float32(math.NaN()), float32(math.Inf(1)), float32(math.Inf(-1))}[t.Intn(3, label+".nonfinite")]
				g.UsedNonFinite = true
			} else {
				f32 = 2.5
			}
		default:
			f32 = float32(int32(t.Draw(1<<24, label+".int"))) / float32(int32(1)<<uint(t.Intn(10, label+".sh")))
		}
		v.F = float64(f32)
	case pkString:
		n := sizeClass(t, label+".slen", g.o.MaxStr)
		if n > g.payload {
			n = g.payload
		}
		g.payload -= n
		v.S = g.str(n, label)
	case pkBytes:
		n := sizeClass(t, label+".blen", g.o.MaxStr)
		if n > g.payload {
			n = g.payload
		}
		g.payload -= n
		v.S = g.bytesVal(n, label)
	default:
		panic("scalar kind")
	}
	return v
}

func (g *pvgen) key(f *PField, label string) *PVal {
	k := g.scalar(f.KeyK, f, label)
	if f.KeyK == pkString && len(k.S) > 40 && !g.t.Chance(1, 8, label+".longkey") {
		k.S = k.S[:len(k.S)%40]
		// keep valid UTF-8: cut at a rune boundary
		for len(k.S) > 0 && k.S[len(k.S)-1]&0xC0 == 0x80 {
			k.S = k.S[:len(k.S)-1]
		}
		if n := len(k.S); n > 0 && k.S[n-1] >= 0xC0 {
			k.S = k.S[:n-1]
		}
	}
	if g.o.KeyMaxInt63 && f.KeyK.isUnsigned() && k.U >= 1<<63 {
		k.U >>= 1
	}
	return k
}

func (g *pvgen) elem(f *PField, depth int, label string) *PVal {
	if f.K == pkMessage {
		return &PVal{K: pkMessage, M: g.msg(f.Msg, depth-1)}
	}
	return g.scalar(f.K, f, label)
}

// msg generates a value of message type m. depth bounds nesting of message-typed fields.
func (g *pvgen) msg(m *PMsg, depth int) *PMsgVal {
	mv := newPMsgVal(m)
	t := g.t
	any := false
	for i, f := range m.Fields {
		pct := g.o.PresentPct
		if f.K == pkMessage && f.Card == cSingle && g.o.MsgPresentPct > 0 {
			pct = g.o.MsgPresentPct
		}
		if !t.Chance(pct, 100, "pv.present") {
			continue
		}
		fv := &mv.F[i]
		if f.K == pkMessage && depth <= 0 {
			continue
		}
		if g.nodes <= 0 {
			break
		}
		g.nodes--
		switch f.Card {
		case cSingle:
			v := g.elem(f, depth, "pv")
			if v.K != pkMessage && v.isZero() {
				continue // proto3: the zero value is not on the wire
			}
			fv.Set, fv.V = true, v
			any = true
		case cRepeated:
			n := t.Intn(g.o.MaxElems+1, "pv.nelems")
			for j := 0; j < n && g.nodes > 0; j++ {
				g.nodes--
				fv.L = append(fv.L, g.elem(f, depth, "pv.el"))
				any = true
			}
		case cMap:
			n := t.Intn(g.o.MaxElems+1, "pv.nentries")
			for j := 0; j < n && g.nodes > 0; j++ {
				g.nodes--
				k := g.key(f, "pv.key")
				if fv.findKey(k) >= 0 {
					continue
				}
				fv.MK = append(fv.MK, k)
				fv.MV = append(fv.MV, g.elem(f, depth, "pv.mv"))
				any = true
			}
		}
	}
	_ = any
	return mv
}

// fixEmptyMsgs makes sure no *nested* message is present-but-empty unless permitted: an empty one
// gets its first scalar-capable field filled (or is removed when it has none).
func (g *pvgen) fixEmptyMsgs(mv *PMsgVal, depth int) {
	for i, f := range mv.T.Fields {
		if f.K != pkMessage {
			continue
		}
		fv := &mv.F[i]
		fix := func(v *PVal) bool { // returns false if v must be dropped
			g.fixEmptyMsgs(v.M, depth-1)
			if !msgEmptyOnWire(v.M) {
				return true
			}
			if g.o.EmptyMsgs {
				g.UsedEmptyMsg = true
				return true
			}
			return g.fillOne(v.M)
		}
		switch f.Card {
		case cSingle:
			if fv.Set && !fix(fv.V) {
				fv.Set, fv.V = false, nil
			}
		case cRepeated:
			o := fv.L[:0]
			for _, e := range fv.L {
				if fix(e) {
					o = append(o, e)
				}
			}
			fv.L = o
		case cMap:
			ok, ov := fv.MK[:0], fv.MV[:0]
			for j := range fv.MK {
				if fix(fv.MV[j]) {
					ok = append(ok, fv.MK[j])
					ov = append(ov, fv.MV[j])
				}
			}
			fv.MK, fv.MV = ok, ov
		}
	}
}

// fillOne sets one non-message field of an empty message to a non-zero value.
func (g *pvgen) fillOne(mv *PMsgVal) bool {
	for i, f := range mv.T.Fields {
		if f.K == pkMessage {
			continue
		}
		v := nonZero(f)
		switch f.Card {
		case cSingle:
			mv.F[i].Set, mv.F[i].V = true, v
		case cRepeated:
			mv.F[i].L = []*PVal{v}
		case cMap:
			mv.F[i].MK = []*PVal{nonZeroKind(f.KeyK, f)}
			mv.F[i].MV = []*PVal{v}
		}
		return true
	}
	return false
}

func nonZero(f *PField) *PVal { return nonZeroKind(f.K, f) }

func nonZeroKind(k pKind, f *PField) *PVal {
	v := &PVal{K: k}
	switch k {
	case pkString, pkBytes:
		v.S = []byte("k")
	case pkDouble, pkFloat:
		v.F = 1
	case pkEnum:
		v.I = int64(f.Enum.Values[len(f.Enum.Values)-1])
		if v.I == 0 {
			return v
		}
	default:
		if k.isUnsigned() {
			v.U = 1
		} else {
			v.I = 1
		}
	}
	return v
}

// msgEmptyOnWire: the reference encoding of mv has zero bytes.
func msgEmptyOnWire(mv *PMsgVal) bool {
	for i, f := range mv.T.Fields {
		fv := &mv.F[i]
		switch f.Card {
		case cSingle:
			if fv.Set {
				return false
			}
		case cRepeated:
			if len(fv.L) > 0 {
				return false
			}
		case cMap:
			if len(fv.MK) > 0 {
				return false
			}
		}
	}
	return true
}

func genPMessage(t *simrt.Tape, s *PSchema, o pvgenOpts) (*PMsgVal, *pvgen) {
	g := &pvgen{t: t, o: o, s: s, nodes: 120, payload: 12000}
	if o.MaxNodes > 0 {
		g.nodes = o.MaxNodes
	}
	mv := g.msg(s.Root(), o.Depth)
	g.fixEmptyMsgs(mv, o.Depth)
	return mv, g
}

// ---- structural facts computed from a reference encoding (walker over protowire + the schema)

type pwireFacts struct {
	// ListBoundary: somewhere a nested message's last record belongs to an unpacked repeated field
	// or a map field with number N and the record that follows the nested message (in an enclosing
	// message) carries the same number N.
	ListBoundary bool
	// OddMapKey: a non-empty map whose key kind is outside int32/int64/uint32/uint64/string.
	OddMapKey string
	// EmptyNested: a nested message (field, element or map value) with length 0.
	EmptyNested bool
	// PackedFixed: a non-empty packed repeated field of a fixed-width kind.
	PackedFixed bool
	// Int64MapKey: a non-empty map<int64,_>.
	Int64MapKey bool
}

func isPlainKey(k pKind) bool {
	for _, x := range plainKeyKinds {
		if x == k {
			return true
		}
	}
	return false
}

// walkWire collects pwireFacts for message type m encoded in full[s:e].
func walkWire(m *PMsg, full []byte, s, e int, facts *pwireFacts, depth int) {
	if depth > 32 {
		return
	}
	var last *PField
	p := s
	for p < e {
		num, wt, n := protowire.ConsumeTag(full[p:e])
		if n < 0 {
			return
		}
		f := m.ByNum(int(num))
		vs := p + n
		vn := protowire.ConsumeFieldValue(num, wt, full[vs:e])
		if vn < 0 {
			return
		}
		if f != nil {
			last = f
			if wt == protowire.BytesType {
				_, ln := protowire.ConsumeVarint(full[vs:e])
				cs, ce := vs+ln, vs+vn
				switch {
				case f.Card == cMap:
					if !isPlainKey(f.KeyK) {
						facts.OddMapKey = f.KeyK.String()
					}
					if f.KeyK == pkInt64 {
						facts.Int64MapKey = true
					}
					if f.K == pkMessage {
						// entry: key = 1, value = 2
						q := cs
						for q < ce {
							en, ewt, tn := protowire.ConsumeTag(full[q:ce])
							if tn < 0 {
								return
							}
							evn := protowire.ConsumeFieldValue(en, ewt, full[q+tn:ce])
							if evn < 0 {
								return
							}
							if en == 2 && ewt == protowire.BytesType {
								_, l2 := protowire.ConsumeVarint(full[q+tn : ce])
								if evn-l2 == 0 {
									facts.EmptyNested = true
								}
								walkWire(f.Msg, full, q+tn+l2, q+tn+evn, facts, depth+1)
							}
							q += tn + evn
						}
					}
				case f.K == pkMessage:
					if ce-cs == 0 {
						facts.EmptyNested = true
					}
					walkWire(f.Msg, full, cs, ce, facts, depth+1)
				case f.Card == cRepeated && f.K.packable():
					if ce > cs && (f.K == pkFixed32 || f.K == pkFixed64 || f.K == pkSfixed32 || f.K == pkSfixed64 || f.K == pkFloat || f.K == pkDouble) {
						facts.PackedFixed = true
					}
				}
			}
		}
		p = vs + vn
	}
	if last != nil && last.unpackedContainer() && e < len(full) && depth > 0 {
		if num, _, n := protowire.ConsumeTag(full[e:]); n > 0 && int(num) == last.Num {
			facts.ListBoundary = true
		}
	}
}

func wireFacts(s *PSchema, b []byte) pwireFacts {
	var f pwireFacts
	walkWire(s.Root(), b, 0, len(b), &f, 0)
	return f
}

// splitTopLevel returns the offsets of the top-level record boundaries of b.
func splitTopLevel(b []byte) (offs []int, nums []int) {
	p := 0
	for p < len(b) {
		num, _, n := protowire.ConsumeField(b[p:])
		if n < 0 {
			break
		}
		offs = append(offs, p)
		nums = append(nums, int(num))
		p += n
	}
	offs = append(offs, len(b))
	return
}

func hexClip(b []byte, n int) string {
	if len(b) > n {
		return fmt.Sprintf("%x...(+%d)", b[:n], len(b)-n)
	}
	return fmt.Sprintf("%x", b)
}
