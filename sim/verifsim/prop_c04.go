package main

import (
	"bytes"
	"fmt"
	"strings"

	"github.com/cloudwego/dynamicgo/internal/simrt"
	"github.com/cloudwego/dynamicgo/thrift"
	"github.com/cloudwego/dynamicgo/thrift/generic"
)

func init() { register("C04", runC04) }

// pstep is one step of a path into a model value.
type pstep struct {
	Kind int // 0 field id, 1 index, 2 string key, 3 int key
	ID   int
	Idx  int
	SKey string
	IKey int64
	Name string
	// Bin: the map key is addressed by its thrift-binary encoding (PathBinKey) instead of by string / int
	Bin []byte
}

func (p pstep) String() string {
	switch p.Kind {
	case 0:
		return fmt.Sprintf("field(%d)", p.ID)
	case 1:
		return fmt.Sprintf("index(%d)", p.Idx)
	case 2:
		return fmt.Sprintf("key(%q)", p.SKey)
	}
	return fmt.Sprintf("key(%d)", p.IKey)
}

func pathString(ps []pstep) string {
	s := make([]string, len(ps))
	for i, p := range ps {
		s[i] = p.String()
	}
	return strings.Join(s, "/")
}

func toLibPath(ps []pstep, byName bool) []generic.Path {
	out := make([]generic.Path, len(ps))
	for i, p := range ps {
		switch p.Kind {
		case 0:
			if byName && p.Name != "" {
				out[i] = generic.NewPathFieldName(p.Name)
			} else {
				out[i] = generic.NewPathFieldId(thrift.FieldID(p.ID))
			}
		case 1:
			out[i] = generic.NewPathIndex(p.Idx)
		case 2:
			if p.Bin != nil {
				out[i] = binKeyPath(p.Bin)
			} else {
				out[i] = generic.NewPathStrKey(p.SKey)
			}
		default:
			if p.Bin != nil {
				out[i] = binKeyPath(p.Bin)
			} else {
				out[i] = generic.NewPathIntKey(int(p.IKey))
			}
		}
	}
	clobberStack()
	return out
}

// binKeyPath builds a PathBinKey the way a caller's helper does: the encoded key lives in a local array
// of a function that returns the Path, so the Path outlives the frame and the bytes must have moved to the heap.
//
//go:noinline
func binKeyPath(k []byte) generic.Path {
	var kb [24]byte
	if len(k) > len(kb) {
		return generic.NewPathBinKey(append([]byte{}, k...))
	}
	n := copy(kb[:], k)
	return generic.NewPathBinKey(kb[:n])
}

// clobberStack overwrites the stack area below the caller's frame (where binKeyPath's frame was).
//
//go:noinline
func clobberStack() byte {
	var junk [512]byte
	for i := range junk {
		junk[i] = 0xEE
	}
	return junk[17]
}

// withBinKeys re-spells some map-key steps of path as binary keys.
func (c *c04) withBinKeys(rootT *TType, path []pstep) {
	t := rootT
	for i := range path {
		if t == nil {
			return
		}
		if t.Kind == tMAP && (path[i].Kind == 2 || path[i].Kind == 3) && c.w.T.Chance(1, 4, "path.binkey") {
			kv := &TVal{T: t.Key, I: path[i].IKey, S: []byte(path[i].SKey)}
			path[i].Bin = encodeThrift(nil, kv)
			c.w.Count("path_bin_key")
		}
		t = typeAt(t, path[i])
	}
}

// childAt returns the child addressed by step (nil if absent) and whether the step fits v's kind.
func childAt(v *TVal, p pstep) (child *TVal, idx int, fits bool) {
	switch v.T.Kind {
	case tSTRUCT:
		if p.Kind != 0 {
			return nil, -1, false
		}
		for i, fv := range v.Fields {
			if fv.F != nil && fv.F.ID == p.ID {
				return fv.V, i, true
			}
		}
		return nil, -1, true
	case tLIST, tSET:
		if p.Kind != 1 {
			return nil, -1, false
		}
		if p.Idx >= 0 && p.Idx < len(v.List) {
			return v.List[p.Idx], p.Idx, true
		}
		return nil, -1, true
	case tMAP:
		if v.T.Key.Kind == tSTRING {
			if p.Kind != 2 {
				return nil, -1, false
			}
			for i, k := range v.Keys {
				if string(k.S) == p.SKey {
					return v.Vals[i], i, true
				}
			}
			return nil, -1, true
		}
		if p.Kind != 3 {
			return nil, -1, false
		}
		for i, k := range v.Keys {
			if k.I == p.IKey {
				return v.Vals[i], i, true
			}
		}
		return nil, -1, true
	}
	return nil, -1, false
}

// typeAt returns the declared type of the child addressed by p (nil if p does not fit).
func typeAt(t *TType, p pstep) *TType {
	switch t.Kind {
	case tSTRUCT:
		if p.Kind == 0 {
			if f := t.St.ByID(p.ID); f != nil {
				return f.T
			}
		}
	case tLIST, tSET:
		if p.Kind == 1 {
			return t.Elem
		}
	case tMAP:
		if (t.Key.Kind == tSTRING && p.Kind == 2) || (t.Key.Kind != tSTRING && p.Kind == 3) {
			return t.Elem
		}
	}
	return nil
}

// modelSet replaces or inserts; returns (existed, parent, index-in-parent-of-the-new-element).
func modelSet(root *TVal, path []pstep, nv *TVal) (existed bool, parent *TVal, idx int) {
	cur := root
	for _, p := range path[:len(path)-1] {
		c, _, _ := childAt(cur, p)
		cur = c
	}
	last := path[len(path)-1]
	_, i, _ := childAt(cur, last)
	if i >= 0 {
		switch cur.T.Kind {
		case tSTRUCT:
			cur.Fields[i].V = nv
		case tLIST, tSET:
			cur.List[i] = nv
		case tMAP:
			cur.Vals[i] = nv
		}
		return true, cur, i
	}
	switch cur.T.Kind {
	case tSTRUCT:
		cur.Fields = append(cur.Fields, TFieldVal{F: cur.T.St.ByID(last.ID), V: nv})
		return false, cur, len(cur.Fields) - 1
	case tLIST, tSET:
		cur.List = append(cur.List, nv)
		return false, cur, len(cur.List) - 1
	default:
		k := &TVal{T: cur.T.Key}
		if last.Kind == 2 {
			k.S = []byte(last.SKey)
		} else {
			k.I = last.IKey
		}
		cur.Keys = append(cur.Keys, k)
		cur.Vals = append(cur.Vals, nv)
		return false, cur, len(cur.Keys) - 1
	}
}

func modelUnset(root *TVal, path []pstep) bool {
	cur := root
	for _, p := range path[:len(path)-1] {
		c, _, _ := childAt(cur, p)
		if c == nil {
			return false
		}
		cur = c
	}
	_, i, _ := childAt(cur, path[len(path)-1])
	if i < 0 {
		return false
	}
	switch cur.T.Kind {
	case tSTRUCT:
		cur.Fields = append(cur.Fields[:i], cur.Fields[i+1:]...)
	case tLIST, tSET:
		cur.List = append(cur.List[:i], cur.List[i+1:]...)
	case tMAP:
		cur.Keys = append(cur.Keys[:i], cur.Keys[i+1:]...)
		cur.Vals = append(cur.Vals[:i], cur.Vals[i+1:]...)
	}
	return true
}

// cmpTree compares got with want exactly, except that in container insParent (a node of want) the
// element at insIdx may sit at any position in got ("the previous elements keep their relative order").
func cmpTree(path string, got, want *TVal, insParent *TVal, insIdx int) string {
	if got == nil || want == nil {
		if got != want {
			return path + ": nil mismatch"
		}
		return ""
	}
	if got.T.Kind != want.T.Kind {
		return fmt.Sprintf("%s: kind %d != %d", path, got.T.Kind, want.T.Kind)
	}
	switch want.T.Kind {
	case tSTRUCT:
		g, wn := got.Fields, want.Fields
		if len(g) != len(wn) {
			return fmt.Sprintf("%s: %d fields, want %d (got ids %v want ids %v)", path, len(g), len(wn), fieldIDs(g), fieldIDs(wn))
		}
		if want == insParent {
			// move the inserted element of got to insIdx
			id := wn[insIdx].F.ID
			gi := -1
			for i, fv := range g {
				if fv.F != nil && fv.F.ID == id {
					if gi >= 0 {
						return fmt.Sprintf("%s: field %d appears twice", path, id)
					}
					gi = i
				}
			}
			if gi < 0 {
				return fmt.Sprintf("%s: inserted field %d missing", path, id)
			}
			ng := append([]TFieldVal{}, g[:gi]...)
			ng = append(ng, g[gi+1:]...)
			ng = append(ng[:insIdx], append([]TFieldVal{g[gi]}, ng[insIdx:]...)...)
			g = ng
		}
		for i := range wn {
			if (g[i].F == nil) != (wn[i].F == nil) {
				return fmt.Sprintf("%s: member %d unknown-ness differs", path, i)
			}
			if wn[i].F == nil {
				continue
			}
			if g[i].F.ID != wn[i].F.ID {
				return fmt.Sprintf("%s: member %d is field %d, want field %d (got ids %v want ids %v)", path, i, g[i].F.ID, wn[i].F.ID, fieldIDs(got.Fields), fieldIDs(wn))
			}
			if d := cmpTree(fmt.Sprintf("%s.%d", path, wn[i].F.ID), g[i].V, wn[i].V, insParent, insIdx); d != "" {
				return d
			}
		}
	case tLIST, tSET:
		if len(got.List) != len(want.List) {
			return fmt.Sprintf("%s: %d elements, want %d", path, len(got.List), len(want.List))
		}
		if want == insParent {
			// the property fixes the container and the order of the previous elements, not the
			// position of the new element: accept it anywhere
			rest := append(append([]*TVal{}, want.List[:insIdx]...), want.List[insIdx+1:]...)
			for gi := range got.List {
				if cmpTree(path, got.List[gi], want.List[insIdx], nil, 0) != "" {
					continue
				}
				ok := true
				k := 0
				for j := range got.List {
					if j == gi {
						continue
					}
					if cmpTree(path, got.List[j], rest[k], nil, 0) != "" {
						ok = false
						break
					}
					k++
				}
				if ok {
					return ""
				}
			}
			return fmt.Sprintf("%s: list after insertion is not (previous elements in order + the new element)", path)
		}
		for i := range want.List {
			if d := cmpTree(fmt.Sprintf("%s[%d]", path, i), got.List[i], want.List[i], insParent, insIdx); d != "" {
				return d
			}
		}
	case tMAP:
		gk, gv := got.Keys, got.Vals
		if len(gk) != len(want.Keys) {
			return fmt.Sprintf("%s: %d entries, want %d", path, len(gk), len(want.Keys))
		}
		if want == insParent {
			key := want.Keys[insIdx]
			gi := -1
			for i, k := range gk {
				if equalVal(k, key) {
					if gi >= 0 {
						return fmt.Sprintf("%s: inserted key appears twice", path)
					}
					gi = i
				}
			}
			if gi < 0 {
				return fmt.Sprintf("%s: inserted key missing", path)
			}
			nk := append([]*TVal{}, gk[:gi]...)
			nk = append(nk, gk[gi+1:]...)
			nk = append(nk[:insIdx], append([]*TVal{gk[gi]}, nk[insIdx:]...)...)
			nv := append([]*TVal{}, gv[:gi]...)
			nv = append(nv, gv[gi+1:]...)
			nv = append(nv[:insIdx], append([]*TVal{gv[gi]}, nv[insIdx:]...)...)
			gk, gv = nk, nv
		}
		for i := range want.Keys {
			if !equalVal(gk[i], want.Keys[i]) {
				return fmt.Sprintf("%s: key %d differs", path, i)
			}
			if d := cmpTree(fmt.Sprintf("%s{%d}", path, i), gv[i], want.Vals[i], insParent, insIdx); d != "" {
				return d
			}
		}
	default:
		if !equalVal(got, want) {
			return fmt.Sprintf("%s: scalar differs (got %s want %s)", path, scalarStr(got), scalarStr(want))
		}
	}
	return ""
}

func fieldIDs(fs []TFieldVal) []int {
	var o []int
	for _, f := range fs {
		if f.F != nil {
			o = append(o, f.F.ID)
		} else {
			o = append(o, -1)
		}
	}
	return o
}

func scalarStr(v *TVal) string {
	switch v.T.Kind {
	case tBOOL:
		return fmt.Sprint(v.B)
	case tDOUBLE:
		return fmt.Sprint(v.D)
	case tSTRING:
		return fmt.Sprintf("%q", clip(v.S, 40))
	}
	return fmt.Sprint(v.I)
}

// ---- the world

type c04Handle struct {
	name  string
	typed bool
	node  generic.Node
	val   generic.Value
	model *TVal
	rootT *TType // type of this handle's value (handles of one world may hold values of different types)
	rootD *thrift.TypeDescriptor
}

func (h *c04Handle) raw() []byte {
	if h.typed {
		return h.val.Raw()
	}
	return h.node.Raw()
}

type c04 struct {
	w       *W
	sch     *TSchema
	rootT   *TType
	rootD   *thrift.TypeDescriptor
	handles []*c04Handle
	vg      *vgen
	// paths: name-addressed path slices are built once and passed again whenever the same textual path is
	// used later, on whichever handle - the way a caller keeps `ownerPath := []Path{NewPathFieldName("owner")}`
	paths map[string][]generic.Path
}

// libPath returns the library path for ps; name-addressed ones are the caller's long-lived slices.
func (c *c04) libPath(ps []pstep, byName bool) []generic.Path {
	if !byName {
		return toLibPath(ps, false)
	}
	key := ""
	for _, p := range ps {
		if p.Kind == 0 && p.Name != "" {
			key += "." + p.Name
		} else {
			key += "/" + p.String()
		}
	}
	if lp, ok := c.paths[key]; ok {
		c.w.Count("path_slice_reused")
		return lp
	}
	lp := toLibPath(ps, true)
	if c.paths == nil {
		c.paths = map[string][]generic.Path{}
	}
	c.paths[key] = lp
	return lp
}

func descAt(d *thrift.TypeDescriptor, t *TType, path []pstep) *thrift.TypeDescriptor {
	for _, p := range path {
		switch t.Kind {
		case tSTRUCT:
			f := d.Struct().FieldById(thrift.FieldID(p.ID))
			d = f.Type()
		case tLIST, tSET:
			d = d.Elem()
		case tMAP:
			d = d.Elem()
		}
		t = typeAt(t, p)
	}
	return d
}

// randomPath walks into the model. mode 0: existing element; 1: insertable absent last step;
// 2: absent inner (a missing container on the way); 3: wrong-kind last step.
func (c *c04) randomPath(root *TVal, mode int) ([]pstep, bool) {
	t := c.w.T
	var path []pstep
	cur := root
	for depth := 0; depth < 6; depth++ {
		// candidates
		var steps []pstep
		switch cur.T.Kind {
		case tSTRUCT:
			for _, fv := range cur.Fields {
				if fv.F != nil && fv.V != nil {
					steps = append(steps, pstep{Kind: 0, ID: fv.F.ID, Name: fv.F.Name})
				}
			}
		case tLIST, tSET:
			for i := range cur.List {
				steps = append(steps, pstep{Kind: 1, Idx: i})
			}
		case tMAP:
			for _, k := range cur.Keys {
				if k.T.Kind == tSTRING {
					steps = append(steps, pstep{Kind: 2, SKey: string(k.S)})
				} else {
					steps = append(steps, pstep{Kind: 3, IKey: k.I})
				}
			}
		default:
			return path, len(path) > 0 && mode == 0
		}
		isContainer := cur.T.Kind == tSTRUCT || cur.T.Kind == tLIST || cur.T.Kind == tSET || cur.T.Kind == tMAP
		stopHere := len(path) > 0 && t.Chance(1, 3, "path.stop")
		if mode == 0 && stopHere {
			return path, true
		}
		if mode != 0 && isContainer && (stopHere || len(steps) == 0 || depth == 5) {
			// produce the special last step in this container
			switch mode {
			case 1, 2:
				abs, ok := c.absentStep(cur)
				if !ok {
					return nil, false
				}
				path = append(path, abs)
				if mode == 2 {
					// continue below something that does not exist
					nt := typeAt(cur.T, abs)
					if nt == nil {
						return nil, false
					}
					switch nt.Kind {
					case tSTRUCT:
						if len(nt.St.Fields) == 0 {
							return nil, false
						}
						f := nt.St.Fields[0]
						path = append(path, pstep{Kind: 0, ID: f.ID, Name: f.Name})
					case tLIST, tSET:
						path = append(path, pstep{Kind: 1, Idx: 0})
					case tMAP:
						if nt.Key.Kind == tSTRING {
							path = append(path, pstep{Kind: 2, SKey: "k"})
						} else {
							path = append(path, pstep{Kind: 3, IKey: 1})
						}
					default:
						return nil, false
					}
				}
				return path, true
			case 3:
				var wrong pstep
				switch cur.T.Kind {
				case tSTRUCT:
					wrong = pstep{Kind: 1, Idx: 0}
				case tLIST, tSET:
					wrong = pstep{Kind: 0, ID: 1}
				default:
					wrong = pstep{Kind: 1, Idx: 0}
				}
				if cur.T.Kind != tMAP && t.Chance(1, 3, "path.wrong.binkey") {
					// a raw-bytes map key aimed at something that is no map (whose bytes may well read as a map header)
					wrong = pstep{Kind: 3, IKey: 0, Bin: []byte{0, 0, 0, byte(t.Intn(2, "path.wrong.binkey.v"))}}
				}
				return append(path, wrong), true
			}
		}
		if len(steps) == 0 {
			return path, len(path) > 0 && mode == 0
		}
		s := steps[t.Intn(len(steps), "path.step")]
		// bias to first / last positions
		if t.Chance(1, 4, "path.edge") {
			if t.Chance(1, 2, "path.edge.last") {
				s = steps[len(steps)-1]
			} else {
				s = steps[0]
			}
		}
		path = append(path, s)
		cur, _, _ = childAt(cur, s)
	}
	return path, mode == 0
}

// absentStep returns a step addressing an element that is absent from container v but insertable.
func (c *c04) absentStep(v *TVal) (pstep, bool) {
	t := c.w.T
	switch v.T.Kind {
	case tSTRUCT:
		var cands []*TField
		for _, f := range v.T.St.Fields {
			if ch, _, _ := childAt(v, pstep{Kind: 0, ID: f.ID}); ch == nil {
				present := false
				for _, fv := range v.Fields {
					if fv.F != nil && fv.F.ID == f.ID {
						present = true
					}
				}
				if !present {
					cands = append(cands, f)
				}
			}
		}
		if len(cands) == 0 {
			return pstep{}, false
		}
		f := cands[t.Intn(len(cands), "absent.field")]
		return pstep{Kind: 0, ID: f.ID, Name: f.Name}, true
	case tLIST, tSET:
		return pstep{Kind: 1, Idx: len(v.List)}, true
	case tMAP:
		for try := 0; try < 8; try++ {
			if v.T.Key.Kind == tSTRING {
				k := fmt.Sprintf("nk%d", t.Intn(1000, "absent.skey"))
				if ch, i, _ := childAt(v, pstep{Kind: 2, SKey: k}); ch == nil && i < 0 {
					return pstep{Kind: 2, SKey: k}, true
				}
			} else {
				lim := 100
				if v.T.Key.Kind == tBYTE {
					lim = 100
				}
				k := int64(t.Intn(lim, "absent.ikey")) - 20
				if v.T.Key.Kind == tBYTE && k < 0 {
					// which Go integer a negative thrift byte key is addressed by is a read-side (C01/C19)
					// question: ReadInt(I08) yields 0..255. Not generated here.
					k = -k
				}
				if ch, i, _ := childAt(v, pstep{Kind: 3, IKey: k}); ch == nil && i < 0 {
					return pstep{Kind: 3, IKey: k}, true
				}
			}
		}
	}
	return pstep{}, false
}

func (c *c04) newValue(t *TType) *TVal {
	c.vg.o.nodes = 0
	return c.vg.value(t, 1+c.w.T.Intn(2, "newval.depth"))
}

func typeOfPath(root *TType, path []pstep) *TType {
	t := root
	for _, p := range path {
		t = typeAt(t, p)
		if t == nil {
			return nil
		}
	}
	return t
}

// verifyAll decodes every live handle and compares it with its model.
func (c *c04) verifyAll(after string, edited *c04Handle, insParent *TVal, insIdx int) {
	if i := strings.IndexByte(after, ' '); i > 0 {
		c.w.Sig("op:" + after[:i])
	} else {
		c.w.Sig("op:" + after)
	}
	for _, h := range c.handles {
		raw := h.raw()
		got, n, err := decodeThrift(raw, h.rootT, 0)
		facts := map[string]string{"after": after, "handle_is_edited": fmt.Sprint(h == edited)}
		if err != nil {
			c.w.Failf("not-wellformed", facts, "after %s: handle %s no longer decodes: %v\nraw: %x", after, h.name, err, clipb(raw, 300))
		}
		if n != len(raw) {
			c.w.Failf("trailing-bytes", facts, "after %s: handle %s has %d bytes, value ends at %d\nraw: %x", after, h.name, len(raw), n, clipb(raw, 300))
		}
		ip, ii := (*TVal)(nil), 0
		if h == edited {
			ip, ii = insParent, insIdx
		}
		if d := cmpTree("$", got, h.model, ip, ii); d != "" {
			kind := "wrong-value"
			if h != edited {
				kind = "other-handle-changed"
			}
			c.w.Failf(kind, facts, "after %s: handle %s differs from its model: %s\nraw: %x", after, h.name, d, clipb(raw, 400))
		}
		// adopt the implementation's placement of an inserted element
		h.model = got
	}
}

func runC04(w *W) {
	t := w.T
	resetKnobs()
	generic.DefaultNodeSliceCap = pickInt(t, "knob.nodeslicecap", 16, 1, 4)
	if t.Chance(1, 3, "knob.gc") {
		w.World.GCNum, w.World.GCDen, w.World.GCBudget = 1, pickInt(t, "knob.gcden", 8, 32, 128), 4
	}
	w.World.PoolFreshPct = pickInt(t, "knob.poolfresh", 20, 0, 100)
	so := tgenOpts{MaxStructs: 1 + t.Intn(3, "sch.structs"), MaxFields: 2 + t.Intn(6, "sch.fields"), MaxDepth: 1 + t.Intn(3, "sch.depth"),
		BigIDs: t.Chance(1, 3, "sch.bigids"), Recursive: t.Chance(1, 3, "sch.rec"), Requiredness: false, SharedNames: t.Chance(1, 2, "sch.sharednames")}
	so.ZeroID = t.Chance(1, 3, "sch.zeroid")
	sch := genSchema(t, so)
	rootDesc := parseThrift(w, sch, thrift.Options{})
	c := &c04{w: w, sch: sch, rootT: sch.Root, rootD: rootDesc}
	// root may be a container-typed member of the root struct instead of the struct itself
	if t.Chance(1, 3, "root.member") {
		var cands []*TField
		for _, f := range sch.Root.St.Fields {
			if f.T.Kind == tLIST || f.T.Kind == tMAP || f.T.Kind == tSET || f.T.Kind == tSTRUCT {
				cands = append(cands, f)
			}
		}
		if len(cands) > 0 {
			f := cands[t.Intn(len(cands), "root.which")]
			c.rootT = f.T
			c.rootD = rootDesc.Struct().FieldById(thrift.FieldID(f.ID)).Type()
		}
	}
	c.vg = &vgen{t: t, o: vgenOpts{MaxElems: 1 + t.Intn(6, "val.elems"), MaxStr: 1 + sizeClass(t, "val.maxstr", 200), Depth: 2 + t.Intn(3, "val.depth"), PresentPct: pickInt(t, "val.present", 70, 100, 40), NonNegByteKeys: true}}
	orig := c.vg.value(c.rootT, c.vg.o.Depth)
	raw := encodeThrift(nil, orig)
	w.Logf("IDL:\n%s\nroot type %s, %d bytes: %x", sch.IDL, typeName(c.rootT), len(raw), clipb(raw, 300))
	mk := func(name string, typed bool, b []byte, m *TVal) *c04Handle {
		h := &c04Handle{name: name, typed: typed, model: m, rootT: c.rootT, rootD: c.rootD}
		buf := append([]byte{}, b...)
		if typed {
			h.val = generic.NewValue(c.rootD, buf)
		} else {
			h.node = generic.NewNode(thrift.Type(c.rootT.Kind), buf)
		}
		return h
	}
	c.handles = append(c.handles, mk("origin", t.Chance(1, 2, "origin.typed"), raw, cloneVal(orig)))
	c.verifyAll("load", nil, nil, 0)

	nsteps := 3 + t.Intn(22, "nsteps")
	for s := 0; s < nsteps; s++ {
		h := c.handles[t.Intn(len(c.handles), "step.handle")]
		kind := t.Intn(15, "step.kind")
		byName := h.typed && t.Chance(1, 2, "step.byname")
		switch kind {
		case 0, 1, 2: // set existing
			path, ok := c.randomPath(h.model, 0)
			if !ok {
				continue
			}
			tt := typeOfPath(h.rootT, path)
			nv := c.newValue(tt)
			w.NextOp(fmt.Sprintf("%s.SetByPath(existing %s) typed=%v byName=%v", h.name, pathString(path), h.typed, byName))
			exist, err := c.doSet(h, path, nv, tt, byName)
			if err != nil {
				w.Failf("set-existing-failed", nil, "SetByPath on an existing element failed: %v (path %s)", err, pathString(path))
			}
			if !exist {
				w.Failf("exist-flag", nil, "SetByPath replaced an existing element but reported exist=false (path %s)", pathString(path))
			}
			modelSet(h.model, path, nv)
			w.Count("set_existing")
			c.verifyAll("set-existing "+pathString(path), h, nil, 0)
		case 3, 4: // insert
			path, ok := c.randomPath(h.model, 1)
			if !ok {
				continue
			}
			tt := typeOfPath(h.rootT, path)
			if tt == nil {
				continue
			}
			nv := c.newValue(tt)
			w.NextOp(fmt.Sprintf("%s.SetByPath(insert %s) typed=%v byName=%v", h.name, pathString(path), h.typed, byName))
			exist, err := c.doSet(h, path, nv, tt, byName)
			if err != nil {
				w.Failf("insert-failed", nil, "SetByPath inserting an absent element failed: %v (path %s)", err, pathString(path))
			}
			if exist {
				w.Failf("exist-flag", nil, "SetByPath inserted an absent element but reported exist=true (path %s)", pathString(path))
			}
			_, par, idx := modelSet(h.model, path, nv)
			w.Count("set_insert")
			c.verifyAll("insert "+pathString(path), h, par, idx)
		case 5, 6: // unset existing
			path, ok := c.randomPath(h.model, 0)
			if !ok {
				continue
			}
			w.NextOp(fmt.Sprintf("%s.UnsetByPath(existing %s) typed=%v byName=%v", h.name, pathString(path), h.typed, byName))
			if err := c.doUnset(h, path, byName); err != nil {
				w.Failf("unset-failed", nil, "UnsetByPath of an existing element failed: %v (path %s)", err, pathString(path))
			}
			modelUnset(h.model, path)
			w.Count("unset_existing")
			c.verifyAll("unset "+pathString(path), h, nil, 0)
		case 7: // unset absent: changes nothing
			path, ok := c.randomPath(h.model, 1+t.Intn(2, "unset.absent.mode"))
			if !ok {
				continue
			}
			if last := path[len(path)-1]; last.Kind == 1 {
				// one-past-the-end index: absent
			}
			w.NextOp(fmt.Sprintf("%s.UnsetByPath(absent %s) typed=%v", h.name, pathString(path), h.typed))
			w.opFacts = map[string]string{"op": "unset-absent"}
			err := c.doUnset(h, path, byName)
			w.opFacts = nil
			_ = err // an error or nil are both acceptable; the value must be unchanged
			w.Count("unset_absent")
			c.verifyAllFacts("unset-absent "+pathString(path), h, map[string]string{"op": "unset-absent", "container": kindName(containerKindOf(h.model, path))})
		case 8: // failing: wrong-kind path / type-mismatching replacement / error node
			c.failingOp(h)
		case 9: // fork
			if len(c.handles) < 4 {
				w.NextOp(fmt.Sprintf("%s.Fork()", h.name))
				f := &c04Handle{name: fmt.Sprintf("fork%d", len(c.handles)), typed: h.typed, model: cloneVal(h.model), rootT: h.rootT, rootD: h.rootD}
				if h.typed {
					f.val = h.val.Fork()
				} else {
					f.node = h.node.Fork()
				}
				c.handles = append(c.handles, f)
				w.Count("fork")
				c.verifyAll("fork", nil, nil, 0)
			}
		case 10: // SetMany on the root's direct children
			c.setMany(h)
		case 12: // the new value is a sub-node of the edited value itself (it aliases the buffer being rewritten)
			c.setFromOwn(h)
		case 13: // a value of another type enters the program: a struct found inside h becomes a root of its own
			c.subRoot(h)
		case 14: // a Value used as a slot: replaced as a whole (empty path) by a value of possibly another type
			c.rootSet(h)
		default: // ReplaceByPath
			if h.typed {
				continue
			}
			path, ok := c.randomPath(h.model, 0)
			if !ok {
				continue
			}
			tt := typeOfPath(h.rootT, path)
			nv := c.newValue(tt)
			w.NextOp(fmt.Sprintf("%s.ReplaceByPath(%s)", h.name, pathString(path)))
			exist, err := h.node.ReplaceByPath(func(old generic.Node) generic.Node {
				return generic.NewNode(thrift.Type(tt.Kind), encodeThrift(nil, nv))
			}, toLibPath(path, false)...)
			if err != nil || !exist {
				w.Failf("replace-failed", nil, "ReplaceByPath on an existing element: exist=%v err=%v", exist, err)
			}
			modelSet(h.model, path, nv)
			w.Count("replace")
			c.verifyAll("replace "+pathString(path), h, nil, 0)
		}
	}
	w.Sig(fmt.Sprintf("handles%d/root%d", len(c.handles), c.rootT.Kind))
	w.sample = map[string]interface{}{"root": typeName(c.rootT), "steps": nsteps, "handles": len(c.handles)}
}

func kindName(k byte) string {
	switch k {
	case tSTRUCT:
		return "struct"
	case tLIST:
		return "list"
	case tSET:
		return "set"
	case tMAP:
		return "map"
	}
	return "scalar"
}

func containerKindOf(root *TVal, path []pstep) byte {
	cur := root
	for _, p := range path[:len(path)-1] {
		c, _, _ := childAt(cur, p)
		if c == nil {
			return 0
		}
		cur = c
	}
	return cur.T.Kind
}

func (c *c04) verifyAllFacts(after string, edited *c04Handle, facts map[string]string) {
	defer func() {
		if r := recover(); r != nil {
			if v, ok := r.(*Violation); ok {
				for _, k := range sortedFactKeys(facts) {
					v.Facts[k] = facts[k]
				}
			}
			panic(r)
		}
	}()
	c.verifyAll(after, edited, nil, 0)
}

func (c *c04) doSet(h *c04Handle, path []pstep, nv *TVal, tt *TType, byName bool) (bool, error) {
	c.withBinKeys(h.rootT, path)
	b := encodeThrift(nil, nv)
	if h.typed {
		d := descAt(h.rootD, h.rootT, path)
		return h.val.SetByPath(generic.NewValue(d, b), c.libPath(path, byName)...)
	}
	return h.node.SetByPath(generic.NewNode(thrift.Type(tt.Kind), b), toLibPath(path, false)...)
}

func (c *c04) doUnset(h *c04Handle, path []pstep, byName bool) error {
	c.withBinKeys(h.rootT, path)
	if h.typed {
		return h.val.UnsetByPath(c.libPath(path, byName)...)
	}
	return h.node.UnsetByPath(toLibPath(path, false)...)
}

func (c *c04) failingOp(h *c04Handle) {
	w, t := c.w, c.w.T
	switch t.Intn(4, "fail.kind") {
	case 3: // SetMany with a wrong-kind path: rejected as a whole, the value stays as it is
		if h.typed {
			return
		}
		path, ok := c.randomPath(h.model, 3)
		if !ok || len(path) != 1 {
			return
		}
		w.NextOp(fmt.Sprintf("%s.SetMany(wrong-kind %s) [must fail]", h.name, pathString(path)))
		nv := &TVal{T: &TType{Kind: tI32}, I: 7}
		pns := []generic.PathNode{{Path: toLibPath(path, false)[0], Node: generic.NewNode(thrift.I32, encodeThrift(nil, nv))}}
		if err := h.node.SetMany(pns, &generic.Options{}); err == nil {
			w.Failf("wrong-kind-accepted", nil, "SetMany with a path that does not fit the container kind succeeded (path %s)", pathString(path))
		}
		w.Count("fail_setmany_wrong_kind")
		c.verifyAll("failed wrong-kind setmany "+pathString(path), h, nil, 0)
	case 0: // wrong-kind path
		path, ok := c.randomPath(h.model, 3)
		if !ok {
			return
		}
		w.NextOp(fmt.Sprintf("%s.SetByPath(wrong-kind %s) [must fail]", h.name, pathString(path)))
		nv := &TVal{T: &TType{Kind: tI32}, I: 7}
		if h.typed {
			return
		}
		_, err := h.node.SetByPath(generic.NewNode(thrift.I32, encodeThrift(nil, nv)), toLibPath(path, false)...)
		if err == nil {
			w.Failf("wrong-kind-accepted", nil, "SetByPath with a path step that does not fit the container kind succeeded (path %s)", pathString(path))
		}
		w.Count("fail_wrong_kind_path")
		c.verifyAll("failed wrong-kind set "+pathString(path), h, nil, 0)
	case 1: // type-mismatching replacement of an existing element
		if h.typed {
			return
		}
		path, ok := c.randomPath(h.model, 0)
		if !ok {
			return
		}
		tt := typeOfPath(h.rootT, path)
		other := byte(tI64)
		if tt.Kind == tI64 {
			other = tSTRING
		}
		nv := &TVal{T: &TType{Kind: other}, I: 5, S: []byte("x")}
		w.NextOp(fmt.Sprintf("%s.SetByPath(type-mismatch %s) [must fail]", h.name, pathString(path)))
		_, err := h.node.SetByPath(generic.NewNode(thrift.Type(other), encodeThrift(nil, nv)), toLibPath(path, false)...)
		if err == nil {
			w.Failf("type-mismatch-accepted", nil, "SetByPath replaced a %s element by a value of wire type %d without error (path %s)", typeName(tt), other, pathString(path))
		}
		w.Count("fail_type_mismatch")
		c.verifyAll("failed type-mismatch set "+pathString(path), h, nil, 0)
	default: // error node as argument
		if h.typed {
			return
		}
		path, ok := c.randomPath(h.model, 0)
		if !ok {
			return
		}
		w.NextOp(fmt.Sprintf("%s.SetByPath(error node at %s) [must fail]", h.name, pathString(path)))
		bad := h.node.GetByPath(generic.NewPathFieldId(32001), generic.NewPathIndex(99999))
		if !bad.IsError() {
			return
		}
		_, err := h.node.SetByPath(bad, toLibPath(path, false)...)
		if err == nil {
			w.Failf("error-node-accepted", nil, "SetByPath accepted an error node as the new value (path %s)", pathString(path))
		}
		w.Count("fail_error_node")
		c.verifyAll("failed error-node set "+pathString(path), h, nil, 0)
	}
}

func (c *c04) setMany(h *c04Handle) {
	w, t := c.w, c.w.T
	if h.typed {
		return
	}
	root := h.model
	n := 1 + t.Intn(4, "setmany.n")
	var steps []pstep
	used := map[string]bool{}
	inserted := false
	for i := 0; i < n; i++ {
		var s pstep
		ok := false
		if t.Chance(1, 2, "setmany.insert") && !(inserted && (root.T.Kind == tLIST || root.T.Kind == tSET)) {
			s, ok = c.absentStep(root)
			if ok && (root.T.Kind == tLIST || root.T.Kind == tSET) {
				inserted = true
			}
		}
		if !ok {
			p, ok2 := c.randomPath(root, 0)
			if !ok2 || len(p) == 0 {
				continue
			}
			s = p[0]
		}
		if used[s.String()] {
			continue
		}
		used[s.String()] = true
		steps = append(steps, s)
	}
	if len(steps) == 0 {
		return
	}
	pns := make([]generic.PathNode, len(steps))
	vals := make([]*TVal, len(steps))
	desc := make([]string, len(steps))
	for i, s := range steps {
		tt := typeAt(h.rootT, s)
		vals[i] = c.newValue(tt)
		pns[i] = generic.PathNode{Path: toLibPath([]pstep{s}, false)[0], Node: generic.NewNode(thrift.Type(tt.Kind), encodeThrift(nil, vals[i]))}
		desc[i] = s.String()
	}
	w.NextOp(fmt.Sprintf("%s.SetMany(%s)", h.name, strings.Join(desc, ",")))
	opts := &generic.Options{}
	if err := h.node.SetMany(pns, opts); err != nil {
		w.Failf("setmany-failed", nil, "SetMany failed: %v (%s)", err, strings.Join(desc, ","))
	}
	// model: replacements in place; inserted ones in unspecified position -> compare as multiset at the root
	for i, s := range steps {
		modelSet(root, []pstep{s}, vals[i])
	}
	w.Count("setmany")
	// order-insensitive check at the root container, exact below
	raw := h.raw()
	got, nb, err := decodeThrift(raw, h.rootT, 0)
	if err != nil || nb != len(raw) {
		w.Failf("not-wellformed", map[string]string{"after": "setmany"}, "after SetMany handle %s no longer decodes (%v, %d of %d bytes): %x", h.name, err, nb, len(raw), clipb(raw, 300))
	}
	d := ""
	if (root.T.Kind == tLIST || root.T.Kind == tSET) && inserted {
		d = cmpTree("$", got, root, root, len(root.List)-1)
	} else {
		d = cmpRootUnordered(got, root)
	}
	if d != "" {
		w.Failf("wrong-value", map[string]string{"after": "setmany"}, "after SetMany(%s): %s\nraw: %x", strings.Join(desc, ","), d, clipb(raw, 400))
	}
	h.model = got
	c.verifyAll("setmany", h, nil, 0)
	// the same slice of edits applied once more (a caller that keeps its edit list): every element exists now and is
	// replaced by the value it already has
	if t.Chance(1, 3, "setmany.again") {
		w.NextOp(fmt.Sprintf("%s.SetMany(%s) again with the same []PathNode", h.name, strings.Join(desc, ",")))
		if err := h.node.SetMany(pns, opts); err != nil {
			w.Failf("setmany-failed", map[string]string{"after": "setmany-again"}, "SetMany with the same edit list failed the second time: %v (%s)", err, strings.Join(desc, ","))
		}
		raw2 := h.raw()
		got2, nb2, err := decodeThrift(raw2, h.rootT, 0)
		if err != nil || nb2 != len(raw2) {
			w.Failf("not-wellformed", map[string]string{"after": "setmany-again"}, "after the second SetMany with the same edit list handle %s no longer decodes (%v, %d of %d bytes): %x", h.name, err, nb2, len(raw2), clipb(raw2, 300))
		}
		// every addressed element exists now: the edits are replacements (an element inserted by the first call may sit
		// anywhere in a list, so the second application is not necessarily a no-op)
		for i, s := range steps {
			modelSet(h.model, []pstep{s}, vals[i])
		}
		if d := cmpRootUnordered(got2, h.model); d != "" {
			w.Failf("wrong-value", map[string]string{"after": "setmany-again"}, "after the second SetMany(%s) with the same edit list: %s\nraw: %x", strings.Join(desc, ","), d, clipb(raw2, 400))
		}
		h.model = got2
		w.Count("setmany_again")
		c.verifyAll("setmany-again", h, nil, 0)
	}
}

// cmpRootUnordered compares the root container as a multiset (struct fields / map entries) and
// exactly below. Lists are compared exactly.
func cmpRootUnordered(got, want *TVal) string {
	switch want.T.Kind {
	case tSTRUCT:
		if len(got.Fields) != len(want.Fields) {
			return fmt.Sprintf("$: %d fields, want %d (got %v want %v)", len(got.Fields), len(want.Fields), fieldIDs(got.Fields), fieldIDs(want.Fields))
		}
		for _, wf := range want.Fields {
			n := 0
			for _, gf := range got.Fields {
				if gf.F != nil && wf.F != nil && gf.F.ID == wf.F.ID {
					n++
					if d := cmpTree(fmt.Sprintf("$.%d", wf.F.ID), gf.V, wf.V, nil, 0); d != "" {
						return d
					}
				}
			}
			if n != 1 {
				return fmt.Sprintf("$: field %d appears %d times", wf.F.ID, n)
			}
		}
		return ""
	case tMAP:
		if len(got.Keys) != len(want.Keys) {
			return fmt.Sprintf("$: %d entries, want %d", len(got.Keys), len(want.Keys))
		}
		for i, wk := range want.Keys {
			n := 0
			for j, gk := range got.Keys {
				if equalVal(gk, wk) {
					n++
					if d := cmpTree(fmt.Sprintf("${%d}", i), got.Vals[j], want.Vals[i], nil, 0); d != "" {
						return d
					}
				}
			}
			if n != 1 {
				return fmt.Sprintf("$: key #%d appears %d times", i, n)
			}
		}
		return ""
	}
	return cmpTree("$", got, want, nil, 0)
}

var _ = bytes.Equal
var _ = simrt.PlaceHeap

type pathVal struct {
	path []pstep
	v    *TVal
}

func collectPaths(v *TVal, prefix []pstep, out *[]pathVal) {
	if v == nil || len(*out) > 96 {
		return
	}
	add := func(s pstep, c *TVal) {
		np := append(append([]pstep{}, prefix...), s)
		*out = append(*out, pathVal{np, c})
		collectPaths(c, np, out)
	}
	switch v.T.Kind {
	case tSTRUCT:
		for _, fv := range v.Fields {
			if fv.F != nil && fv.V != nil {
				add(pstep{Kind: 0, ID: fv.F.ID, Name: fv.F.Name}, fv.V)
			}
		}
	case tLIST, tSET:
		for i, e := range v.List {
			add(pstep{Kind: 1, Idx: i}, e)
		}
	case tMAP:
		for i, k := range v.Keys {
			if k.T.Kind == tSTRING {
				add(pstep{Kind: 2, SKey: string(k.S)}, v.Vals[i])
			} else {
				add(pstep{Kind: 3, IKey: k.I}, v.Vals[i])
			}
		}
	}
}

func sameType(a, b *TType) bool {
	if a.Kind != b.Kind {
		return false
	}
	switch a.Kind {
	case tSTRUCT:
		return a.St == b.St
	case tLIST, tSET:
		return sameType(a.Elem, b.Elem)
	case tMAP:
		return sameType(a.Key, b.Key) && sameType(a.Elem, b.Elem)
	case tSTRING:
		return a.Binary == b.Binary
	}
	return true
}

// setFromOwn: handle.SetByPath(handle.GetByPath(B), A) - the source bytes live in the buffer that is being edited.
func (c *c04) setFromOwn(h *c04Handle) {
	w, t := c.w, c.w.T
	var all []pathVal
	collectPaths(h.model, nil, &all)
	if len(all) < 2 {
		return
	}
	a := all[t.Intn(len(all), "own.target")]
	var cands []pathVal
	for _, b := range all {
		if sameType(a.v.T, b.v.T) && pathString(a.path) != pathString(b.path) {
			cands = append(cands, b)
		}
	}
	if len(cands) == 0 {
		return
	}
	b := cands[t.Intn(len(cands), "own.source")]
	w.NextOp(fmt.Sprintf("%s.SetByPath(own sub-node %s -> %s) typed=%v", h.name, pathString(b.path), pathString(a.path), h.typed))
	var exist bool
	var err error
	if h.typed {
		src := h.val.GetByPath(toLibPath(b.path, false)...)
		if src.IsError() {
			w.Failf("get-existing-failed", nil, "GetByPath of an existing element failed (path %s)", pathString(b.path))
		}
		exist, err = h.val.SetByPath(src, toLibPath(a.path, false)...)
	} else {
		src := h.node.GetByPath(toLibPath(b.path, false)...)
		if src.IsError() {
			w.Failf("get-existing-failed", nil, "GetByPath of an existing element failed (path %s)", pathString(b.path))
		}
		exist, err = h.node.SetByPath(src, toLibPath(a.path, false)...)
	}
	if err != nil || !exist {
		w.Failf("set-existing-failed", nil, "SetByPath(own sub-node) on an existing element: exist=%v err=%v (%s -> %s)", exist, err, pathString(b.path), pathString(a.path))
	}
	modelSet(h.model, a.path, cloneVal(b.v))
	w.Count("set_from_own_subnode")
	c.verifyAll("set-own "+pathString(a.path), h, nil, 0)
}

// subRoot makes a struct value found inside h the root of a new typed handle.
func (c *c04) subRoot(h *c04Handle) {
	w, t := c.w, c.w.T
	if len(c.handles) >= 5 || !h.typed {
		return
	}
	var all, cands []pathVal
	collectPaths(h.model, nil, &all)
	for _, pv := range all {
		if pv.v.T.Kind == tSTRUCT && len(pv.path) > 0 {
			cands = append(cands, pv)
		}
	}
	if len(cands) == 0 {
		return
	}
	pv := cands[t.Intn(len(cands), "subroot.which")]
	w.NextOp(fmt.Sprintf("NewValue(%s of %s)", typeName(pv.v.T), h.name))
	d := descAt(h.rootD, h.rootT, pv.path)
	nh := &c04Handle{name: fmt.Sprintf("sub%d", len(c.handles)), typed: true, model: cloneVal(pv.v), rootT: pv.v.T, rootD: d}
	nh.val = generic.NewValue(d, encodeThrift(nil, pv.v))
	c.handles = append(c.handles, nh)
	w.Count("subroot_handle")
	c.verifyAll("subroot", nil, nil, 0)
}

// rootSet replaces the whole value of a typed handle by (a fork of) another typed handle's value.
func (c *c04) rootSet(h *c04Handle) {
	w, t := c.w, c.w.T
	var others []*c04Handle
	for _, o := range c.handles {
		if o != h && o.typed {
			others = append(others, o)
		}
	}
	if !h.typed || len(others) == 0 {
		return
	}
	o := others[t.Intn(len(others), "rootset.from")]
	w.NextOp(fmt.Sprintf("%s.SetByPath(%s.Fork()) with an empty path", h.name, o.name))
	exist, err := h.val.SetByPath(o.val.Fork())
	if err != nil || !exist {
		w.Failf("set-existing-failed", nil, "SetByPath with an empty path: exist=%v err=%v", exist, err)
	}
	h.model, h.rootT, h.rootD = cloneVal(o.model), o.rootT, o.rootD
	w.Count("root_set")
	if o.rootT.St != nil && h.rootT.St != nil {
		w.Sig("rootset")
	}
	c.verifyAll("rootset", h, nil, 0)
}
