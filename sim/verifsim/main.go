// Command verifsim is the simulation worker. It is compiled *inside* the dynamicgo module (as
// internal/verifsim, through a build overlay) so that it can reach internal packages, and it is
// driven by /verif/dynsim.
package main

import (
	"encoding/json"
	"flag"
	"fmt"
	"os"
	"runtime"
	"runtime/debug"
	"sort"
	"strings"
	"syscall"
	"time"

	"github.com/cloudwego/dynamicgo/internal/simrt"
)

// Violation is how an oracle reports. Class is the stable part used for shrinking and for
// matching known findings; Detail is for humans.
type Violation struct {
	Class  string            `json:"class"`
	Detail string            `json:"detail"`
	Facts  map[string]string `json:"facts,omitempty"` // structural facts for known-finding predicates
}

type Result struct {
	Digest uint64
	Steps  uint64
	V      *Violation
	Tape   []uint64
	Log    []string
	Sig    string
	Stats  map[string]uint64
	Sample interface{}
	Cmp    uint64
	HasCmp bool
}

type Prop struct {
	ID  string
	Run func(w *W)
}

var props = map[string]*Prop{}

func register(id string, run func(w *W)) { props[id] = &Prop{ID: id, Run: run} }

func worldSeed(base uint64, prop string, idx uint64) uint64 {
	h := base*0x9e3779b97f4a7c15 + 0x1234567
	for _, c := range []byte(prop) {
		h ^= uint64(c)
		h *= 0x100000001b3
	}
	h ^= idx * 0xd6e8feb86659fd93
	h *= 0x100000001b3
	return h
}

type replayFile struct {
	Property  string     `json:"property"`
	Tier      string     `json:"tier"`
	Flavour   string     `json:"flavour"`
	Seed      uint64     `json:"verif_seed"`
	Index     uint64     `json:"world_index"`
	TreeHash  string     `json:"tree_hash"`
	Tape      []uint64   `json:"tape"`
	Violation *Violation `json:"violation"`
	Decoded   []string   `json:"decoded"`
	Shrunk    string     `json:"shrunk,omitempty"`
}

var (
	flagProp       = flag.String("prop", "", "property id")
	flagTier       = flag.String("tier", "quick", "quick|thorough")
	flagSeed       = flag.Uint64("seed", 1, "VERIF_SEED")
	flagFrom       = flag.Uint64("from", 0, "first world index")
	flagTo         = flag.Uint64("to", 1, "one past last world index")
	flagReplay     = flag.String("replay", "", "replay file")
	flagTapeIn     = flag.String("tape", "", "run one world from this tape file (JSON array); prints class")
	flagTapeOut    = flag.String("tapeout", "", "stream every drawn value to this file (for crash attribution)")
	flagTrace      = flag.Bool("trace", false, "print decoded log")
	flagOutDir     = flag.String("replaydir", "", "where to write replay files")
	flagShrink     = flag.Int("shrink", 400, "in-process shrink budget")
	flagShrinkSecs = flag.Int("shrinksecs", 45, "wall-clock cap for in-process shrinking")
	flagTree       = flag.String("tree", "", "tree hash (recorded in replay files)")
	flagFlavour    = flag.String("flavour", "native", "build flavour label")
	flagDigests    = flag.Bool("digests", false, "print per-world digests (determinism self-test)")
	flagMaxViol    = flag.Int("maxviol", 8, "stop shrinking new violations after this many distinct classes")
)

var currentTier string

func out(format string, a ...interface{}) {
	s := fmt.Sprintf(format, a...)
	os.Stdout.WriteString(s + "\n")
}

func main() {
	flag.Parse()
	debug.SetGCPercent(-1)
	currentTier = *flagTier
	warmFlavours()
	if *flagProp == "C06" {
		// an attacker-controlled count used as an allocation size must kill the worker (crash-class
		// violation attributed through the journal) instead of eating the machine
		lim := syscall.Rlimit{Cur: 12 << 30, Max: 12 << 30}
		syscall.Setrlimit(syscall.RLIMIT_AS, &lim)
	}
	if *flagReplay != "" {
		os.Exit(doReplay(*flagReplay))
	}
	p := props[*flagProp]
	if p == nil {
		fmt.Fprintf(os.Stderr, "unknown property %q\n", *flagProp)
		os.Exit(2)
	}
	if *flagTapeIn != "" {
		b, err := os.ReadFile(*flagTapeIn)
		if err != nil {
			fmt.Fprintln(os.Stderr, err)
			os.Exit(2)
		}
		var tape []uint64
		if err := json.Unmarshal(b, &tape); err != nil {
			fmt.Fprintln(os.Stderr, err)
			os.Exit(2)
		}
		out("B 0")
		r := runWorld(p, simrt.ReplayTape(tape), *flagTrace)
		if r.V != nil {
			vb, _ := json.Marshal(r.V)
			out("E 0 %016x %d V - %s", r.Digest, r.Steps, vb)
		} else {
			out("E 0 %016x %d", r.Digest, r.Steps)
		}
		if *flagTrace {
			for _, l := range r.Log {
				out("L %s", l)
			}
		}
		return
	}

	start := time.Now()
	agg := map[string]uint64{}
	sigs := map[string]uint64{}
	var samples []interface{}
	classes := map[string]bool{}
	nviol := 0
	var steps uint64
	var worlds uint64
	for idx := *flagFrom; idx < *flagTo; idx++ {
		out("B %d", idx)
		t := simrt.NewTape(worldSeed(*flagSeed, p.ID, idx))
		var tf *os.File
		if *flagTapeOut != "" {
			tf, _ = os.Create(*flagTapeOut)
			t.Trace = func(label string, n, v uint64) { fmt.Fprintf(tf, "%d\n", v) }
		}
		if os.Getenv("DYNSIM_DRAWS") != "" {
			i := 0
			t.Trace = func(label string, n, v uint64) { out("D %d %s n=%d v=%d", i, label, n, v); i++ }
		}
		r := runWorld(p, t, *flagTrace)
		if *flagTrace {
			for _, l := range r.Log {
				out("L %s", l)
			}
		}
		if tf != nil {
			tf.Close()
		}
		worlds++
		steps += r.Steps
		for k, v := range r.Stats {
			agg[k] += v
		}
		if r.Sig != "" {
			sigs[r.Sig]++
		}
		if r.Sample != nil && len(samples) < 3 && (idx-*flagFrom)%97 == 0 {
			samples = append(samples, r.Sample)
		}
		if r.HasCmp && r.V == nil {
			out("C %d %016x", idx, r.Cmp)
		}
		if r.V == nil {
			if *flagDigests {
				out("E %d %016x %d", idx, r.Digest, r.Steps)
			} else {
				out("E %d", idx)
			}
		} else {
			nviol++
			file := ""
			if !classes[r.V.Class] && len(classes) < *flagMaxViol {
				classes[r.V.Class] = true
				file = shrinkAndWrite(p, r, idx)
			}
			vb, _ := json.Marshal(r.V)
			out("E %d %016x %d V %s %s", idx, r.Digest, r.Steps, file, vb)
		}
	}
	// summary
	type kv struct {
		K string
		V uint64
	}
	sum := map[string]interface{}{
		"worlds": worlds, "steps": steps, "violations": nviol, "wall_s": time.Since(start).Seconds(),
		"stats": agg, "sigs": sigs, "samples": samples, "pools": simrt.PoolNames(),
		"reached": reachedHex(),
	}
	b, _ := json.Marshal(sum)
	out("S %s", b)
}

// runWorld executes one world. Every panic is turned into a violation.
var worldCounter int

func runWorld(p *Prop, t *simrt.Tape, trace bool) (res Result) {
	// GOGC is off so that a collection only ever happens where the tape says; between worlds
	// (nothing of the library is in flight) the heap is trimmed when it has grown.
	worldCounter++
	if worldCounter%16 == 0 {
		var ms runtime.MemStats
		runtime.ReadMemStats(&ms)
		if ms.HeapAlloc > 128<<20 {
			runtime.GC()
		}
	}
	w := newW(p.ID, t, trace)
	debug.SetPanicOnFault(true)
	simrt.Begin(w.World)
	// safety net: no world needs anywhere near this many yields; a runaway loop in the library becomes a
	// deterministic step-budget violation instead of a hung worker (worlds set tighter per-call budgets)
	w.World.StepLimit = 30000000
	func() {
		defer func() {
			if r := recover(); r != nil {
				res.V = panicToViolation(p.ID, r)
				if res.V.Facts == nil && w.opFacts != nil {
					res.V.Facts = w.opFacts
				}
				if w.worldFacts != nil {
					if res.V.Facts == nil {
						res.V.Facts = map[string]string{}
					}
					for k, v := range w.worldFacts {
						if _, ok := res.V.Facts[k]; !ok {
							res.V.Facts[k] = v
						}
					}
				}
			}
		}()
		p.Run(w)
		w.World.VerifyAllPoison()
		if len(w.World.Violations) > 0 {
			w.Failf("pool-discipline", nil, "%s", strings.Join(w.World.Violations, "; "))
		}
	}()
	simrt.End()
	w.release()
	res.Digest = t.Digest
	res.Steps = w.World.Steps
	noteReached(w.World.SiteHits)
	res.Tape = t.Rec
	res.Log = w.log
	res.Sig = w.signature()
	res.Sample = w.sample
	res.Stats = w.collectStats()
	res.Cmp, res.HasCmp = w.cmp, w.cmpSet
	return
}

func panicToViolation(prop string, r interface{}) *Violation {
	switch v := r.(type) {
	case *Violation:
		return v
	case simrt.StepLimitExceeded:
		return &Violation{Class: prop + "/step-budget-exceeded", Detail: fmt.Sprintf("logical step budget exceeded after %d yields (loop without progress)", v.Steps)}
	}
	site := panicSite()
	return &Violation{Class: prop + "/panic@" + site, Detail: fmt.Sprintf("panic: %v\n%s", r, trimStack(debug.Stack()))}
}

// panicSite returns the innermost library frame (not runtime, not the harness) of the panicking stack.
func panicSite() string {
	pcs := make([]uintptr, 64)
	n := runtime.Callers(3, pcs)
	frames := runtime.CallersFrames(pcs[:n])
	first := ""
	for {
		f, more := frames.Next()
		fn := f.Function
		if strings.HasPrefix(fn, "github.com/cloudwego/dynamicgo/") && !strings.Contains(fn, "/internal/verifsim") && !strings.Contains(fn, "/internal/simrt") {
			return strings.TrimPrefix(fn, "github.com/cloudwego/dynamicgo/")
		}
		if first == "" && !strings.HasPrefix(fn, "runtime.") {
			first = fn
		}
		if !more {
			break
		}
	}
	if first == "" {
		first = "unknown"
	}
	return "harness:" + strings.TrimPrefix(first, "github.com/cloudwego/dynamicgo/internal/verifsim.")
}

func trimStack(b []byte) string {
	s := string(b)
	if len(s) > 3000 {
		s = s[:3000] + "\n..."
	}
	return s
}

// sameClass: a shrink candidate must keep the class AND the structural facts (minus the
// environment description), otherwise shrinking morphs one defect into another one of the same
// class - in particular an unknown defect into a known finding.
func sameClass(a, b *Violation) bool {
	if a == nil || b == nil || a.Class != b.Class {
		return false
	}
	for _, k := range sortedFactKeys(a.Facts) {
		if k != "env" && a.Facts[k] != b.Facts[k] {
			return false
		}
	}
	for _, k := range sortedFactKeys(b.Facts) {
		if _, ok := a.Facts[k]; !ok && k != "env" {
			return false
		}
	}
	return true
}

func shrinkAndWrite(p *Prop, r Result, idx uint64) string {
	best := r.Tape
	note := ""
	if *flagShrink > 0 {
		deadline := time.Now().Add(time.Duration(*flagShrinkSecs) * time.Second)
		b, tried := simrt.Shrink(r.Tape, *flagShrink, func(c []uint64) bool {
			if time.Now().After(deadline) {
				return false // wall-clock cap on shrinking: it only ever stops the search, the kept tape still reproduces
			}
			rr := runWorld(p, simrt.ReplayTape(c), false)
			return sameClass(rr.V, r.V)
		})
		best = b
		note = fmt.Sprintf("tape %d -> %d values, %d candidates", len(r.Tape), len(best), tried)
	}
	final := runWorld(p, simrt.ReplayTape(best), true)
	if !sameClass(final.V, r.V) {
		// must not happen; fall back to the unshrunk tape
		best = r.Tape
		final = runWorld(p, simrt.ReplayTape(best), true)
		note += " (shrunk tape did not reproduce; kept original)"
	}
	rf := replayFile{Property: p.ID, Tier: *flagTier, Flavour: *flagFlavour, Seed: *flagSeed, Index: idx, TreeHash: *flagTree,
		Tape: best, Violation: final.V, Decoded: final.Log, Shrunk: note}
	if final.V == nil {
		rf.Violation = r.V
	}
	if *flagOutDir == "" {
		return ""
	}
	name := fmt.Sprintf("%s/%s-%d-%d.json", *flagOutDir, p.ID, *flagSeed, idx)
	b, _ := json.MarshalIndent(rf, "", " ")
	os.MkdirAll(*flagOutDir, 0o755)
	if err := os.WriteFile(name, b, 0o644); err != nil {
		return ""
	}
	return name
}

func doReplay(path string) int {
	b, err := os.ReadFile(path)
	if err != nil {
		fmt.Fprintln(os.Stderr, err)
		return 2
	}
	var rf replayFile
	if err := json.Unmarshal(b, &rf); err != nil {
		fmt.Fprintln(os.Stderr, err)
		return 2
	}
	p := props[rf.Property]
	if p == nil {
		fmt.Fprintf(os.Stderr, "unknown property %q\n", rf.Property)
		return 2
	}
	currentTier = rf.Tier
	out("B 0")
	rt := simrt.ReplayTape(rf.Tape)
	if os.Getenv("DYNSIM_DRAWS") != "" {
		i := 0
		rt.Trace = func(label string, n, v uint64) { out("D %d %s n=%d v=%d", i, label, n, v); i++ }
	}
	r := runWorld(p, rt, true)
	for _, l := range r.Log {
		out("L %s", l)
	}
	if r.V != nil {
		vb, _ := json.Marshal(r.V)
		out("E 0 %016x %d V - %s", r.Digest, r.Steps, vb)
		want := ""
		if rf.Violation != nil {
			want = rf.Violation.Class
		}
		if want != "" && want != r.V.Class {
			out("REPLAY-DIFFERENT-CLASS recorded=%s now=%s", want, r.V.Class)
		}
		return 1
	}
	out("E 0 %016x %d", r.Digest, r.Steps)
	return 0
}

func sortedKeys(m map[string]uint64) []string {
	var ks []string
	for k := range m {
		ks = append(ks, k)
	}
	sort.Strings(ks)
	return ks
}

// reachedSites: yield / probe sites passed at least once by any world of this worker (function reach).
var reachedSites []bool

func noteReached(hits []uint32) {
	if len(reachedSites) < len(hits) {
		reachedSites = append(reachedSites, make([]bool, len(hits)-len(reachedSites))...)
	}
	for i, v := range hits {
		if v > 0 {
			reachedSites[i] = true
		}
	}
}

func reachedHex() string {
	b := make([]byte, (len(reachedSites)+7)/8)
	for i, r := range reachedSites {
		if r {
			b[i/8] |= 1 << uint(i%8)
		}
	}
	return fmt.Sprintf("%x", b)
}
