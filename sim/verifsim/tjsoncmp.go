package main

import (
	"bytes"
	"encoding/base64"
	"encoding/json"
	"fmt"
	"math"
	"strconv"
	"unicode/utf8"
)

// t2jOpts are the options that shape the JSON denotation of a Thrift value.
type t2jOpts struct {
	Int642String bool
	ByteAsUint8  bool
	NoBase64     bool
	// ValueMapping: fields annotated api.js_conv carry their integer as a decimal string
	ValueMapping bool
}

// parseJSONStrict parses with encoding/json (UseNumber) and rejects trailing garbage.
func parseJSONStrict(b []byte) (interface{}, error) {
	if !utf8.Valid(b) {
		// encoding/json silently replaces invalid UTF-8; the property allows invalid UTF-8 only inside
		// strings that were invalid in the message, which the generators do not produce.
		return nil, fmt.Errorf("output is not valid UTF-8")
	}
	dec := json.NewDecoder(bytes.NewReader(b))
	dec.UseNumber()
	var v interface{}
	if err := dec.Decode(&v); err != nil {
		return nil, err
	}
	if dec.More() {
		return nil, fmt.Errorf("trailing data after top-level value")
	}
	var extra interface{}
	if err := dec.Decode(&extra); err == nil {
		return nil, fmt.Errorf("second top-level value")
	}
	return v, nil
}

// objectKeysInOrder returns the member keys of a JSON object text at the top level, in order,
// including duplicates (encoding/json's map loses both).
func objectKeysDup(b []byte) (dup string) {
	dec := json.NewDecoder(bytes.NewReader(b))
	dec.UseNumber()
	type frame struct {
		obj   bool
		keys  map[string]bool
		isKey bool
	}
	var st []*frame
	for {
		tok, err := dec.Token()
		if err != nil {
			return ""
		}
		switch t := tok.(type) {
		case json.Delim:
			switch t {
			case '{':
				st = append(st, &frame{obj: true, keys: map[string]bool{}, isKey: true})
				continue
			case '[':
				st = append(st, &frame{})
				continue
			default:
				st = st[:len(st)-1]
			}
		case string:
			if len(st) > 0 && st[len(st)-1].obj && st[len(st)-1].isKey {
				f := st[len(st)-1]
				if f.keys[t] {
					return t
				}
				f.keys[t] = true
				f.isKey = false
				continue
			}
		}
		if len(st) > 0 && st[len(st)-1].obj {
			st[len(st)-1].isKey = true
		}
	}
}

// cmpJSConv: a field under the api.js_conv value mapping is the string spelling of its value (a list: of its elements).
func cmpJSConv(path string, got interface{}, v *TVal) string {
	if v.T.Kind == tLIST {
		a, ok := got.([]interface{})
		if !ok || len(a) != len(v.List) {
			return fmt.Sprintf("%s: api.js_conv list: want %d elements, got %#v", path, len(v.List), got)
		}
		for i := range a {
			if d := cmpJSConv(fmt.Sprintf("%s[%d]", path, i), a[i], v.List[i]); d != "" {
				return d
			}
		}
		return ""
	}
	s, ok := got.(string)
	if !ok {
		return fmt.Sprintf("%s: api.js_conv field: want a string, got %#v", path, got)
	}
	switch v.T.Kind {
	case tBYTE, tI16, tI32, tI64:
		if s != strconv.FormatInt(v.I, 10) {
			return fmt.Sprintf("%s: api.js_conv field: want string %q, got %q", path, strconv.FormatInt(v.I, 10), s)
		}
	case tDOUBLE:
		x, err := strconv.ParseFloat(s, 64)
		if err != nil || math.Float64bits(x) != math.Float64bits(v.D) {
			return fmt.Sprintf("%s: api.js_conv field: want the spelling of %v (bits %016x), got %q", path, v.D, math.Float64bits(v.D), s)
		}
	case tSTRING:
		if s != string(v.S) {
			return fmt.Sprintf("%s: api.js_conv field: want %q, got %q", path, clip(v.S, 80), clip([]byte(s), 80))
		}
	}
	return ""
}

// cmpJSON compares parsed JSON against the model value; returns "" when it denotes exactly v.
// extra lists, per struct path, additional members that are expected (written unset fields).
func cmpJSON(path string, got interface{}, v *TVal, o t2jOpts, unset func(path string, st *TStruct, present map[int]bool) (map[string]*TVal, bool)) string {
	switch v.T.Kind {
	case tBOOL:
		b, ok := got.(bool)
		if !ok || b != v.B {
			return fmt.Sprintf("%s: want bool %v, got %v", path, v.B, got)
		}
	case tBYTE, tI16, tI32, tI64:
		want := v.I
		if v.T.Kind == tBYTE && o.ByteAsUint8 {
			want = int64(uint8(v.I))
		}
		if o.Int642String && v.T.Kind == tI64 {
			s, ok := got.(string)
			if !ok || s != strconv.FormatInt(want, 10) {
				return fmt.Sprintf("%s: want string %q (Int642String), got %#v", path, strconv.FormatInt(want, 10), got)
			}
			return ""
		}
		n, ok := got.(json.Number)
		if !ok {
			return fmt.Sprintf("%s: want number %d, got %#v", path, want, got)
		}
		x, err := strconv.ParseInt(string(n), 10, 64)
		if err != nil || x != want {
			return fmt.Sprintf("%s: want %d, got %s", path, want, n)
		}
	case tDOUBLE:
		n, ok := got.(json.Number)
		if !ok {
			return fmt.Sprintf("%s: want number %v, got %#v", path, v.D, got)
		}
		x, err := strconv.ParseFloat(string(n), 64)
		if err != nil || math.Float64bits(x) != math.Float64bits(v.D) {
			return fmt.Sprintf("%s: want %v (bits %016x), got %s", path, v.D, math.Float64bits(v.D), n)
		}
	case tSTRING:
		s, ok := got.(string)
		if !ok {
			return fmt.Sprintf("%s: want string, got %#v", path, got)
		}
		if v.T.Binary && !o.NoBase64 {
			if s != base64.StdEncoding.EncodeToString(v.S) {
				return fmt.Sprintf("%s: want base64 %q, got %q", path, base64.StdEncoding.EncodeToString(v.S), clip([]byte(s), 80))
			}
		} else if s != string(v.S) {
			return fmt.Sprintf("%s: want %q, got %q", path, clip(v.S, 80), clip([]byte(s), 80))
		}
	case tSTRUCT:
		m, ok := got.(map[string]interface{})
		if !ok {
			return fmt.Sprintf("%s: want object, got %#v", path, got)
		}
		want := map[string]*TVal{}
		present := map[int]bool{}
		for _, fv := range v.Fields {
			if fv.F == nil || fv.V == nil {
				continue
			}
			want[fv.F.Key()] = fv.V
			present[fv.F.ID] = true
		}
		if unset != nil && !v.Zero {
			extra, _ := unset(path, v.T.St, present)
			for _, k := range sortedStrKeys(extra) {
				want[k] = extra[k]
			}
		}
		jsconv := map[string]bool{}
		if o.ValueMapping {
			for _, fv := range v.Fields {
				if fv.F != nil && fv.F.JSConv {
					jsconv[fv.F.Key()] = true
				}
			}
		}
		for _, k := range sortedStrKeys(want) {
			g, ok := m[k]
			if !ok {
				return fmt.Sprintf("%s: member %q missing", path, k)
			}
			if jsconv[k] {
				if d := cmpJSConv(path+"."+k, g, want[k]); d != "" {
					return d
				}
				continue
			}
			if d := cmpJSON(path+"."+k, g, want[k], o, unset); d != "" {
				return d
			}
		}
		for _, k := range sortedIfaceKeys(m) {
			if _, ok := want[k]; !ok {
				return fmt.Sprintf("%s: unexpected member %q", path, k)
			}
		}
	case tLIST, tSET:
		a, ok := got.([]interface{})
		if !ok {
			return fmt.Sprintf("%s: want array, got %#v", path, got)
		}
		if len(a) != len(v.List) {
			return fmt.Sprintf("%s: want %d elements, got %d", path, len(v.List), len(a))
		}
		for i := range a {
			if d := cmpJSON(fmt.Sprintf("%s[%d]", path, i), a[i], v.List[i], o, unset); d != "" {
				return d
			}
		}
	case tMAP:
		m, ok := got.(map[string]interface{})
		if !ok {
			return fmt.Sprintf("%s: want object, got %#v", path, got)
		}
		if len(m) != len(v.Keys) {
			return fmt.Sprintf("%s: want %d map entries, got %d", path, len(v.Keys), len(m))
		}
		for i, k := range v.Keys {
			ks := ""
			switch k.T.Kind {
			case tSTRING:
				ks = string(k.S)
			case tDOUBLE:
				ks = strconv.FormatFloat(k.D, 'g', -1, 64)
			default:
				ki := k.I
				if k.T.Kind == tBYTE && o.ByteAsUint8 {
					ki = int64(uint8(ki))
				}
				ks = strconv.FormatInt(ki, 10)
			}
			g, ok := m[ks]
			if !ok {
				return fmt.Sprintf("%s: map key %q missing", path, ks)
			}
			if d := cmpJSON(fmt.Sprintf("%s{%s}", path, ks), g, v.Vals[i], o, unset); d != "" {
				return d
			}
		}
	}
	return ""
}

func sortedStrKeys(m map[string]*TVal) []string {
	ks := make([]string, 0, len(m))
	for k := range m {
		ks = append(ks, k)
	}
	sortStrings(ks)
	return ks
}

func sortedIfaceKeys(m map[string]interface{}) []string {
	ks := make([]string, 0, len(m))
	for k := range m {
		ks = append(ks, k)
	}
	sortStrings(ks)
	return ks
}

func sortStrings(a []string) {
	for i := 1; i < len(a); i++ {
		for j := i; j > 0 && a[j] < a[j-1]; j-- {
			a[j], a[j-1] = a[j-1], a[j]
		}
	}
}
