package main

// hresp.go - response direction of C17 (Thrift -> JSON/HTTP): fields annotated api.header /
// api.cookie / api.http_code / api.raw_body are delivered to the http.ResponseSetter and omitted
// from the JSON body; un-annotated fields appear in the JSON body; OmitHttpMappingErrors and
// WriteHttpValueFallback decide what happens when a delivery fails.

import (
	"bytes"
	"context"
	"encoding/base64"
	"encoding/json"
	"errors"
	"fmt"
	"io"
	"strconv"
	"strings"

	"github.com/cloudwego/dynamicgo/conv"
	"github.com/cloudwego/dynamicgo/conv/t2j"
	"github.com/cloudwego/dynamicgo/internal/simrt"
	"github.com/cloudwego/dynamicgo/meta"
	"github.com/cloudwego/dynamicgo/thrift"
)

// ---- recording ResponseSetter (stub of the http side)

type respCall struct {
	Kind string // header, cookie, status, raw_body
	Key  string
	Val  string
	OK   bool
}

type respRecorder struct {
	calls []respCall
	fail  map[string]bool // "kind:key" -> the setter reports an error
	// rawSlices: the very slices handed to SetRawBody - a response object keeps what it was given until
	// the response is written out, which may be after later conversions
	rawSlices [][]byte
}

// heldBody is a response body delivered by an earlier conversion and not written out yet.
type heldBody struct {
	b, snap []byte
	env     string
}

var errSetter = errors.New("simulated ResponseSetter failure")

func (r *respRecorder) rec(kind, key, val string) error {
	ok := !r.fail[kind+":"+key]
	r.calls = append(r.calls, respCall{kind, key, val, ok})
	if !ok {
		return errSetter
	}
	return nil
}
func (r *respRecorder) SetStatusCode(c int) error   { return r.rec("status", "", strconv.Itoa(c)) }
func (r *respRecorder) SetHeader(k, v string) error { return r.rec("header", k, v) }
func (r *respRecorder) SetCookie(k, v string) error { return r.rec("cookie", k, v) }
func (r *respRecorder) SetRawBody(b []byte) error {
	r.rawSlices = append(r.rawSlices, b)
	return r.rec("raw_body", "", string(b))
}
func (r *respRecorder) delivered() (out []respCall) {
	for _, c := range r.calls {
		if c.OK {
			out = append(out, c)
		}
	}
	return
}

func callsString(cs []respCall) string {
	var p []string
	for _, c := range cs {
		s := fmt.Sprintf("%s(%s)=%q", c.Kind, c.Key, clip([]byte(c.Val), 60))
		if !c.OK {
			s += "!failed"
		}
		p = append(p, s)
	}
	return strings.Join(p, " ")
}

// ---- schema

var respKindName = map[hKind]string{hkHeader: "header", hkCookie: "cookie", hkHTTPCode: "status", hkRawBody: "raw_body"}

func respSupported(k hKind) bool {
	return k == hkHeader || k == hkCookie || k == hkHTTPCode || k == hkRawBody
}

type respGenOpts struct {
	NRoot       int
	AnnoPct     int
	Complex     bool // annotated list/map fields (JSON text); off with UseKitexHttpEncoding
	RawBody     bool
	RequestOnly bool // lists may contain request-only kinds (they always fail on a response)
	NoB64       bool
	Defaults    bool
}

func genRespSchema(t *simrt.Tape, o respGenOpts) *hSchema {
	g := &hgen{t: t, o: hGenOpts{NoB64: true, Defaults: o.Defaults}, s: &hSchema{Sch: &TSchema{}, Annos: map[*TField][]hAnno{}, NBS: map[*TStruct]bool{}}}
	rawUsed, codeUsed := false, false
	annotate := func(f *TField) {
		var as []hAnno
		n := 1 + t.Intn(2, "r.anno.n")
		kinds := []hKind{hkHeader, hkCookie}
		for i := 0; i < n; i++ {
			k := kinds[t.Intn(2, "r.anno.kind")]
			dup := false
			for _, a := range as {
				if a.Kind == k {
					dup = true
				}
			}
			if !dup {
				as = append(as, hAnno{Kind: k, Key: g.ident("k")})
			}
		}
		if f.T.Kind == tI32 && !codeUsed && t.Chance(1, 3, "r.anno.code") {
			codeUsed = true
			as = []hAnno{{Kind: hkHTTPCode, Key: "status"}}
			if t.Chance(1, 3, "r.anno.code.more") {
				as = append(as, hAnno{Kind: hkHeader, Key: g.ident("k")})
			}
		}
		if o.RawBody && f.T.Kind == tSTRING && !rawUsed && t.Chance(1, 3, "r.anno.raw") {
			rawUsed = true
			as = []hAnno{{Kind: hkRawBody}}
		}
		if o.RequestOnly && t.Chance(1, 3, "r.anno.reqonly") {
			ro := []hKind{hkQuery, hkPath, hkForm, hkBody}[t.Intn(4, "r.anno.reqonly.kind")]
			p := t.Intn(len(as)+1, "r.anno.reqonly.at")
			if ro == hkBody {
				p = len(as) // the library's annotation mapper moves api.body to the end anyway
			}
			as = append(as, hAnno{})
			copy(as[p+1:], as[p:])
			as[p] = hAnno{Kind: ro, Key: g.ident("k")}
		}
		g.setAnnos(f, as)
	}
	mkType := func(nestedOK bool) *TType {
		switch s := t.Intn(12, "r.shape"); {
		case s < 8:
			return g.scalar()
		case s == 8:
			return &TType{Kind: tLIST, Elem: g.scalar()}
		case s == 9:
			return &TType{Kind: tMAP, Key: &TType{Kind: []byte{tSTRING, tI32, tI64}[t.Intn(3, "r.map.key")]}, Elem: g.scalar()}
		}
		if !nestedOK {
			return g.scalar()
		}
		return nil // nested struct
	}
	g.o.NoB64 = true // binary allowed everywhere: t2j encodes on the Go side
	root := &TStruct{Name: g.ident("Resp")}
	id := 1
	for i := 0; i < o.NRoot; i++ {
		if t.Chance(1, 5, "r.gap") {
			id += 1 + t.Intn(3, "r.gap.n")
		}
		f := &TField{ID: id, Name: g.ident("f")}
		id++
		f.T = mkType(true)
		if f.T == nil {
			// a nested struct, used by this field only (each header/cookie key has one writer)
			st := &TStruct{Name: g.ident("In")}
			nf := 1 + t.Intn(4, "r.nested.nf")
			for j := 0; j < nf; j++ {
				nfd := &TField{ID: j + 1, Name: g.ident("n"), T: mkType(false), Req: t.Intn(3, "r.nested.req")}
				if t.Chance(1, 5, "r.nested.deeper") {
					// one level deeper: a struct inside the nested struct, with annotated members of its own
					st2 := &TStruct{Name: g.ident("In2")}
					nf2 := 1 + t.Intn(3, "r.nested2.nf")
					for k := 0; k < nf2; k++ {
						n2 := &TField{ID: k + 1, Name: g.ident("m"), T: mkType(false), Req: t.Intn(3, "r.nested2.req")}
						st2.Fields = append(st2.Fields, n2)
						if (isScalar(n2.T) || o.Complex) && t.Chance(o.AnnoPct, 100, "r.nested2.anno") {
							annotate(n2)
						}
					}
					g.s.Sch.Structs = append(g.s.Sch.Structs, st2)
					nfd.T = &TType{Kind: tSTRUCT, St: st2}
					st.Fields = append(st.Fields, nfd)
					continue
				}
				st.Fields = append(st.Fields, nfd)
				if (isScalar(nfd.T) || o.Complex) && t.Chance(o.AnnoPct, 100, "r.nested.anno") {
					annotate(nfd)
				}
			}
			g.s.Sch.Structs = append(g.s.Sch.Structs, st)
			f.T = &TType{Kind: tSTRUCT, St: st}
			f.Req = t.Intn(3, "r.req")
			root.Fields = append(root.Fields, f)
			continue
		}
		f.Req = t.Intn(3, "r.req")
		if o.Defaults && f.Req == reqDefault && t.Chance(1, 3, "r.default") {
			f.Default = g.defaultFor(f.T)
		}
		root.Fields = append(root.Fields, f)
		if (isScalar(f.T) || o.Complex) && t.Chance(o.AnnoPct, 100, "r.anno") {
			annotate(f)
		}
	}
	g.s.Sch.Structs = append(g.s.Sch.Structs, root)
	g.s.Root = root
	g.s.Sch.Root = &TType{Kind: tSTRUCT, St: root}
	g.s.Sch.IDL = renderIDL(g.s.Sch)
	return g.s
}

// ---- JSON reading with duplicate-key detection

type jNode struct {
	Kind byte // 'o' object, 'a' array, 's' string, 'n' number, 'b' bool, 'z' null
	Keys []string
	Vals []*jNode
	Str  string
	B    bool
}

func parseJSONTree(b []byte) (*jNode, error) {
	dec := json.NewDecoder(bytes.NewReader(b))
	dec.UseNumber()
	n, err := parseJNode(dec)
	if err != nil {
		return nil, err
	}
	if _, err := dec.Token(); err != io.EOF {
		return nil, fmt.Errorf("trailing data after the JSON value")
	}
	return n, nil
}

func parseJNode(dec *json.Decoder) (*jNode, error) {
	tok, err := dec.Token()
	if err != nil {
		return nil, err
	}
	switch v := tok.(type) {
	case json.Delim:
		switch v {
		case '{':
			n := &jNode{Kind: 'o'}
			for dec.More() {
				kt, err := dec.Token()
				if err != nil {
					return nil, err
				}
				k, ok := kt.(string)
				if !ok {
					return nil, fmt.Errorf("object key is not a string")
				}
				c, err := parseJNode(dec)
				if err != nil {
					return nil, err
				}
				n.Keys = append(n.Keys, k)
				n.Vals = append(n.Vals, c)
			}
			if _, err := dec.Token(); err != nil {
				return nil, err
			}
			return n, nil
		case '[':
			n := &jNode{Kind: 'a'}
			for dec.More() {
				c, err := parseJNode(dec)
				if err != nil {
					return nil, err
				}
				n.Vals = append(n.Vals, c)
			}
			if _, err := dec.Token(); err != nil {
				return nil, err
			}
			return n, nil
		}
		return nil, fmt.Errorf("unexpected delimiter %v", v)
	case string:
		return &jNode{Kind: 's', Str: v}, nil
	case json.Number:
		return &jNode{Kind: 'n', Str: string(v)}, nil
	case bool:
		return &jNode{Kind: 'b', B: v}, nil
	case nil:
		return &jNode{Kind: 'z'}, nil
	}
	return nil, fmt.Errorf("unexpected token %v", tok)
}

// scalarFromText parses the text form of a scalar (header/cookie values, JSON numbers, map keys).
func textMatches(text string, v *TVal, noB64 bool) bool {
	switch v.T.Kind {
	case tBOOL:
		return text == "true" && v.B || text == "false" && !v.B
	case tBYTE, tI16, tI32, tI64:
		i, err := strconv.ParseInt(text, 10, 64)
		return err == nil && i == v.I
	case tDOUBLE:
		f, err := strconv.ParseFloat(text, 64)
		return err == nil && string(encodeThrift(nil, &TVal{T: v.T, D: f})) == string(encodeThrift(nil, v))
	case tSTRING:
		if v.T.Binary && !noB64 {
			d, err := base64.StdEncoding.DecodeString(text)
			return err == nil && bytes.Equal(d, v.S)
		}
		return text == string(v.S)
	}
	return false
}

// jsonMatches compares a parsed JSON value with the expected model value. It returns (kind, detail)
// of the first difference, kind == "" when equal.
func jsonMatches(n *jNode, v *TVal, path string, noB64 bool) (string, string) {
	switch v.T.Kind {
	case tBOOL:
		if n.Kind != 'b' || n.B != v.B {
			return "wrong-value", fmt.Sprintf("%s: expected %v", path, v.B)
		}
	case tBYTE, tI16, tI32, tI64, tDOUBLE:
		if n.Kind != 'n' || !textMatches(n.Str, v, noB64) {
			return "wrong-value", fmt.Sprintf("%s: got %s %q, expected %s", path, string(n.Kind), n.Str, showVal(v))
		}
	case tSTRING:
		if n.Kind != 's' || !textMatches(n.Str, v, noB64) {
			return "wrong-value", fmt.Sprintf("%s: got %s %q, expected %s", path, string(n.Kind), clip([]byte(n.Str), 80), showVal(v))
		}
	case tLIST, tSET:
		if n.Kind != 'a' || len(n.Vals) != len(v.List) {
			return "wrong-value", fmt.Sprintf("%s: expected an array of %d elements", path, len(v.List))
		}
		for i := range v.List {
			if k, d := jsonMatches(n.Vals[i], v.List[i], fmt.Sprintf("%s[%d]", path, i), noB64); k != "" {
				return k, d
			}
		}
	case tMAP:
		if n.Kind != 'o' || len(n.Keys) != len(v.Keys) {
			return "wrong-value", fmt.Sprintf("%s: expected an object of %d members", path, len(v.Keys))
		}
		for i := range v.Keys {
			j := -1
			for k := range n.Keys {
				if textMatches(n.Keys[k], v.Keys[i], true) {
					if j >= 0 {
						return "duplicate-field", fmt.Sprintf("%s: map key %q twice", path, n.Keys[k])
					}
					j = k
				}
			}
			if j < 0 {
				return "wrong-value", fmt.Sprintf("%s: map key %s missing", path, showVal(v.Keys[i]))
			}
			if k, d := jsonMatches(n.Vals[j], v.Vals[i], fmt.Sprintf("%s{%s}", path, n.Keys[j]), noB64); k != "" {
				return k, d
			}
		}
	case tSTRUCT:
		if n.Kind != 'o' {
			return "wrong-value", fmt.Sprintf("%s: expected an object", path)
		}
		for i, k := range n.Keys {
			for j := 0; j < i; j++ {
				if n.Keys[j] == k {
					return "duplicate-field", fmt.Sprintf("%s: member %q written twice", path, k)
				}
			}
		}
		for _, fv := range v.Fields {
			j := -1
			for k := range n.Keys {
				if n.Keys[k] == fv.F.Key() {
					j = k
				}
			}
			fp := path + "." + fv.F.Key()
			if j < 0 {
				return "missing-field", fmt.Sprintf("%s: expected %s in the JSON body", fp, showVal(fv.V))
			}
			if k, d := jsonMatches(n.Vals[j], fv.V, fp, noB64); k != "" {
				return k, d
			}
		}
		for _, k := range n.Keys {
			found := false
			for _, fv := range v.Fields {
				if fv.F.Key() == k {
					found = true
				}
			}
			if !found {
				return "unexpected-field", fmt.Sprintf("%s.%s: member must not be in the JSON body", path, k)
			}
		}
	}
	return "", ""
}

// ---- the decision table of the response direction

type respExpect struct {
	Body     *TVal // fields expected in the JSON body
	Deliver  []respDeliver
	Err      bool
	ErrWhy   string
	Failures int // failed attempts that are expected on the way
	// UnsetDropped: a zero/default-filled (unset) field whose every mapping failed is dropped because
	// WriteHttpValueFallback is off (precondition of a known disagreement: the library falls back anyway)
	UnsetDropped bool
}

type respDeliver struct {
	Kind string
	Key  string
	Val  *TVal
	F    *TField
}

type respOpts struct {
	Mapping, Omit, WHVF, WD, WR, NoB64, UseDefault bool
}

func (x *respExpect) evalStruct(s *hSchema, in *TVal, o respOpts, fail map[string]bool, mapped bool) *TVal {
	out := &TVal{T: in.T}
	handle := func(f *TField, v *TVal, unset bool) {
		as := s.Annos[f]
		if !(o.Mapping && mapped && len(as) > 0) {
			if f.T.Kind == tSTRUCT && !unset {
				// the library maps the annotated fields of a struct nested directly in the root
				out.Fields = append(out.Fields, TFieldVal{F: f, V: x.evalStruct(s, v, o, fail, mapped && in.T.St == s.Root)})
				return
			}
			out.Fields = append(out.Fields, TFieldVal{F: f, V: v})
			return
		}
		for _, a := range as {
			ok := respSupported(a.Kind) && !fail[respKindName[a.Kind]+":"+a.Key]
			if a.Kind == hkHTTPCode || a.Kind == hkRawBody {
				ok = !fail[respKindName[a.Kind]+":"]
			}
			if ok {
				key := a.Key
				if a.Kind == hkHTTPCode || a.Kind == hkRawBody {
					key = ""
				}
				x.Deliver = append(x.Deliver, respDeliver{respKindName[a.Kind], key, v, f})
				return
			}
			x.Failures++
			if !o.Omit {
				x.Err = true
				x.ErrWhy = fmt.Sprintf("mapping %s of field %s fails and OmitHttpMappingErrors is off", hKindShort[a.Kind], f.Name)
				return
			}
		}
		// every mapping failed (errors omitted)
		if o.WHVF {
			out.Fields = append(out.Fields, TFieldVal{F: f, V: v})
		} else if unset {
			x.UnsetDropped = true
		}
	}
	seen := map[int]bool{}
	for _, fv := range in.Fields {
		seen[fv.F.ID] = true
		handle(fv.F, fv.V, false)
	}
	for _, f := range in.T.St.Fields {
		if seen[f.ID] {
			continue
		}
		switch f.Req {
		case reqRequired:
			if !o.WR {
				x.Err = true
				x.ErrWhy = "required field " + f.Name + " is not in the message"
				continue
			}
		case reqDefault:
			if !o.WD {
				continue
			}
		default:
			continue // optional fields are not tracked (SetOptionalBitmap off in these worlds)
		}
		z := hZeroVal(f.T)
		if f.Default != nil && o.UseDefault {
			z = f.Default
		}
		handle(f, z, true)
	}
	return out
}

// ---- the world

var msgHeaderReply = func(name string) []byte {
	b := []byte{0x80, 0x01, 0x00, 0x02}
	b = append(b, byte(len(name)>>24), byte(len(name)>>16), byte(len(name)>>8), byte(len(name)))
	b = append(b, name...)
	b = append(b, 0, 0, 0, 0) // seq id
	b = append(b, tSTRUCT, 0, 0)
	return b
}

func runC17Resp(w *W, flavour string) {
	t := w.T
	var o respOpts
	o.Mapping = !t.Chance(1, 10, "r.control")
	o.Omit = t.Chance(1, 2, "r.omit")
	o.WHVF = t.Chance(1, 2, "r.whvf")
	if t.Chance(1, 2, "r.write.any") {
		o.WD = t.Chance(1, 2, "r.wd")
		o.WR = t.Chance(1, 2, "r.wr")
	}
	o.NoB64 = t.Chance(1, 4, "r.nob64")
	o.UseDefault = t.Chance(1, 2, "r.usedefault")
	kitex := t.Chance(1, 6, "r.kitex")
	useHTTPConvOnly := t.Chance(1, 3, "r.httpconv.only")
	sch := genRespSchema(t, respGenOpts{NRoot: 1 + t.Intn(8, "r.nroot"), AnnoPct: pickInt(t, "r.annopct", 60, 30, 100), Complex: !kitex,
		RawBody: !useHTTPConvOnly, RequestOnly: t.Chance(1, 3, "r.reqonly"), Defaults: t.Chance(1, 3, "r.defaults")})
	po := thrift.Options{UseDefaultValue: o.UseDefault}
	desc, fn := parseThriftFn(w, sch.Sch, po)
	w.Logf("IDL:\n%s", sch.Sch.IDL)
	opts := conv.Options{EnableHttpMapping: o.Mapping, OmitHttpMappingErrors: o.Omit, WriteHttpValueFallback: o.WHVF, WriteDefaultField: o.WD, WriteRequireField: o.WR,
		NoBase64Binary: o.NoB64, UseKitexHttpEncoding: kitex,
		// request-direction options must not influence the response direction
		ReadHttpValueFallback: t.Chance(1, 4, "r.rhvf"), TracebackRequredOrRootFields: t.Chance(1, 4, "r.traceback")}
	w.Logf("conv.Options: %+v parse: UseDefaultValue=%v flavour=%s", opts, o.UseDefault, flavour)

	// ---- the message
	g := &hvgen{t: t, vg: &vgen{t: t, o: vgenOpts{}}, s: sch, noB64: o.NoB64}
	var build func(st *TStruct, tt *TType) *TVal
	build = func(st *TStruct, tt *TType) *TVal {
		v := &TVal{T: tt}
		idx := make([]int, len(st.Fields))
		for i := range idx {
			idx[i] = i
		}
		if t.Chance(1, 2, "r.msg.order") {
			for i := len(idx) - 1; i > 0; i-- {
				j := t.Intn(i+1, "r.msg.order.j")
				idx[i], idx[j] = idx[j], idx[i]
			}
		}
		for _, i := range idx {
			f := st.Fields[i]
			p := 75
			if f.Req == reqRequired {
				p = 95
			}
			if !t.Chance(p, 100, "r.msg.present") {
				continue
			}
			if f.T.Kind == tSTRUCT {
				v.Fields = append(v.Fields, TFieldVal{F: f, V: build(f.T.St, f.T)})
			} else {
				v.Fields = append(v.Fields, TFieldVal{F: f, V: g.value(f.T, 1, 1)})
			}
		}
		return v
	}
	msg := build(sch.Root, sch.Sch.Root)
	// negative byte values of annotated fields (delivered as text): NegByteText switch only
	negByteText := t.Chance(1, 10, "r.sw.negbyte")
	hasNegByte := false
	var fixBytes func(v *TVal, annotated bool)
	fixBytes = func(v *TVal, annotated bool) {
		switch v.T.Kind {
		case tBYTE:
			if annotated && v.I < 0 {
				if negByteText {
					hasNegByte = true
				} else {
					v.I = -(v.I + 1)
				}
			}
		case tSTRUCT:
			for _, fv := range v.Fields {
				fixBytes(fv.V, annotated || len(sch.Annos[fv.F]) > 0)
			}
		case tLIST, tSET:
			for _, e := range v.List {
				fixBytes(e, annotated)
			}
		case tMAP:
			for i := range v.Keys {
				fixBytes(v.Keys[i], annotated)
				fixBytes(v.Vals[i], annotated)
			}
		}
	}
	if o.Mapping {
		fixBytes(msg, false)
	}
	// Known preconditions become their own class (see c17Cond in prop_c17.go).
	var x *respExpect
	tagOf := func(kind string) string {
		switch {
		case hasNegByte:
			return "negative-byte-text"
		case x != nil && x.UnsetDropped:
			return "unset-field-mapping-failed"
		}
		return kind
	}
	tb := encodeThrift(nil, msg)
	w.Logf("message (%d bytes): %x", len(tb), clipb(tb, 400))

	// ---- which setter calls fail
	fail := map[string]bool{}
	var failed []string
	if o.Mapping && t.Chance(1, 2, "r.fail.any") {
		for _, f := range sch.Fields {
			for _, a := range sch.Annos[f] {
				if respSupported(a.Kind) && t.Chance(1, 4, "r.fail") {
					k := respKindName[a.Kind] + ":" + a.Key
					if a.Kind == hkHTTPCode || a.Kind == hkRawBody {
						k = respKindName[a.Kind] + ":"
					}
					if !fail[k] {
						fail[k] = true
						failed = append(failed, k)
					}
				}
			}
		}
	}
	w.Logf("failing setters: %v", failed)

	// ---- oracle
	x = &respExpect{}
	x.Body = x.evalStruct(sch, msg, o, fail, true)
	w.Logf("expected: err=%v (%s) deliveries=%d body fields=%d", x.Err, x.ErrWhy, len(x.Deliver), len(x.Body.Fields))
	w.CountN("resp_expected_deliveries", uint64(len(x.Deliver)))
	w.CountN("resp_expected_failed_attempts", uint64(x.Failures))
	rawBodyField := false
	for _, d := range x.Deliver {
		w.Count("resp_deliver_" + d.Kind)
		if d.Kind == "raw_body" {
			rawBodyField = true
		}
	}

	// ---- environments
	if t.Chance(1, 3, "knob.gc") {
		w.World.GCNum, w.World.GCDen, w.World.GCBudget = 1, pickInt(t, "knob.gcden", 4, 16, 64), 3
	}
	w.World.PoolFreshPct = pickInt(t, "knob.poolfresh", 20, 0, 50, 100)
	nenv := 2 + t.Intn(2, "r.nenv")
	var firstJSON []byte
	var firstCalls string
	firstErr := false
	var held []heldBody
	for k := 0; k < nenv; k++ {
		api := t.Intn(4, "r.api") // 0 BinaryConv.Do 1 BinaryConv.DoInto 2 HTTPConv.Do 3 HTTPConv.DoInto
		if !o.Mapping || rawBodyField || sch.KindsUsed[hkRawBody] {
			// EXCLUDED: api.raw_body together with t2j.HTTPConv, which itself delivers the JSON body
			// through SetRawBody (which of the two wins is not documented).
			api = t.Intn(2, "r.api.bin")
		}
		if useHTTPConvOnly && o.Mapping {
			api = 2 + t.Intn(2, "r.api.http")
		}
		conv.DefaultBufferSize = pickInt(t, "r.bufsize", 4096, 1, 16, 65536)
		conv.DefaulHttpValueBufferSizeForJSON = pickInt(t, "r.hvbuf", 1024, 1, 16)
		delta := 0
		prefix := 0
		place := simrt.PlaceHeap
		if api == 1 || api == 3 {
			switch t.Intn(5, "r.cap") {
			case 0:
				delta = -1
			case 1:
				delta = t.Intn(30, "r.cap.small")
			case 2, 3:
				delta = 2*len(tb) + t.Intn(64, "r.cap.sweep")
			default:
				delta = 8192
			}
			if t.Chance(1, 4, "r.prefix") && api == 1 {
				prefix = 1 + t.Intn(20, "r.prefix.n")
			}
			place = pickInt(t, "r.place", simrt.PlaceHeap, simrt.PlaceCanary, simrt.PlaceCanary, simrt.PlaceGuardEnd)
		}
		inPlace := pickInt(t, "r.inplace", simrt.PlaceHeap, simrt.PlaceHeap, simrt.PlaceGuardEnd, simrt.PlaceReadOnly)
		envs := fmt.Sprintf("%s bufsize=%d hvbuf=%d cap=%d prefix=%d out=%s in=%s", []string{"t2j.BinaryConv.Do", "t2j.BinaryConv.DoInto", "t2j.HTTPConv.Do", "t2j.HTTPConv.DoInto"}[api], conv.DefaultBufferSize, conv.DefaulHttpValueBufferSizeForJSON, delta, prefix, simrt.PlaceNames[place], simrt.PlaceNames[inPlace])
		w.NextOp("t2j env " + envs)
		facts := map[string]string{"env": envs, "direction": "response"}
		w.opFacts = facts
		rec := &respRecorder{fail: fail}
		ctx := context.WithValue(context.Background(), conv.CtxKeyHTTPResponse, rec)
		var out []byte
		var err error
		input := tb
		if api >= 2 {
			input = append(append(msgHeaderReply("Call"), tb...), 0)
		}
		in := w.AllocData(input, inPlace)
		runInto := func(call func(buf *[]byte) error) {
			c := prefix
			if delta >= 0 {
				c = prefix + delta
			}
			ob := w.Alloc(c, place)
			buf := ob.B
			for i := 0; i < prefix; i++ {
				buf = append(buf, byte(0xC0+i%16))
			}
			err = call(&buf)
			if len(buf) > cap(buf) {
				w.Failf("len-exceeds-cap", facts, "DoInto returned len(buf)=%d > cap(buf)=%d (env %s)", len(buf), cap(buf), envs)
			}
			if !ob.CanaryOK() {
				w.Failf("canary", facts, "bytes after the caller buffer's capacity were overwritten (env %s)", envs)
			}
			if len(buf) < prefix {
				w.Failf("prefix-lost", facts, "DoInto shrank the buffer below the caller's prefix (env %s)", envs)
			}
			for i := 0; i < prefix; i++ {
				if buf[i] != byte(0xC0+i%16) {
					w.Failf("prefix-modified", facts, "DoInto modified the caller's prefix at %d (env %s)", i, envs)
				}
			}
			out = append([]byte{}, buf[prefix:]...)
		}
		switch api {
		case 0:
			cv := t2j.NewBinaryConv(opts)
			out, err = cv.Do(ctx, desc, in.B)
		case 1:
			cv := t2j.NewBinaryConv(opts)
			runInto(func(buf *[]byte) error { return cv.DoInto(ctx, desc, in.B, buf) })
		case 2:
			hc := t2j.NewHTTPConv(meta.EncodingThriftBinary, fn)
			err = hc.Do(ctx, rec, in.B, opts)
		case 3:
			hc := t2j.NewHTTPConv(meta.EncodingThriftBinary, fn)
			runInto(func(buf *[]byte) error { return hc.DoInto(ctx, rec, in.B, buf, opts) })
		}
		w.opFacts = nil
		if !bytes.Equal(in.B, input) {
			w.Failf("input-modified", facts, "conversion modified its input (env %s)", envs)
		}
		// the caller may recycle its input buffer as soon as the conversion has returned: what was delivered to
		// the response must not change with it
		if inPlace == simrt.PlaceHeap {
			before := callsString(rec.calls)
			for i := range in.B {
				in.B[i] = '#'
			}
			if after := callsString(rec.calls); after != before {
				w.Failf("response-aliases-input", facts, "values delivered to the response changed when the caller overwrote its input buffer (env %s)\n was: %s\n now: %s", envs, clip([]byte(before), 300), clip([]byte(after), 300))
			}
			copy(in.B, input)
		}
		// responses of earlier conversions that have not been written out yet still hold their bodies
		for _, hb := range held {
			if !bytes.Equal(hb.b, hb.snap) {
				w.Failf("response-body-changed-later", facts, "the body delivered to an earlier response (%s) changed during a later conversion (%s)\n was: %s\n now: %s", hb.env, envs, clip(hb.snap, 200), clip(hb.b, 200))
			}
		}
		if api == 2 && err == nil && len(rec.rawSlices) > 0 {
			b := rec.rawSlices[len(rec.rawSlices)-1]
			held = append(held, heldBody{b, append([]byte{}, b...), envs})
			w.Count("resp_bodies_held")
		}
		calls := rec.delivered()
		if api >= 2 && err == nil {
			// HTTPConv delivers the JSON body through SetRawBody as its last call
			if len(calls) == 0 || calls[len(calls)-1].Kind != "raw_body" {
				w.Failf("body-not-delivered", facts, "t2j.HTTPConv did not deliver the JSON body through SetRawBody (env %s): %s", envs, callsString(rec.calls))
			}
			body := []byte(calls[len(calls)-1].Val)
			if api == 3 && !bytes.Equal(body, out) {
				w.Failf("body-not-delivered", facts, "t2j.HTTPConv.DoInto: SetRawBody got %q but the buffer holds %q", clip(body, 200), clip(out, 200))
			}
			out = body
			calls = calls[:len(calls)-1]
		}
		t.NoteBytes(out)
		t.NoteBytes([]byte(callsString(rec.calls)))
		w.Count("resp_api_" + []string{"BinaryConv.Do", "BinaryConv.DoInto", "HTTPConv.Do", "HTTPConv.DoInto"}[api])
		w.Sig(fmt.Sprintf("resp|k:%s|o:%s|api:%d|fails:%v", kindMask(sch.KindsUsed), boolBits(o.Mapping, o.Omit, o.WHVF, o.WD, o.WR, o.NoB64, kitex), api, len(failed) > 0))
		w.Logf("  -> err=%v json=%s calls=%s", err, clip(out, 400), callsString(rec.calls))

		if x.Err {
			if err == nil {
				w.Failf(tagOf("error-expected"), facts, "expected an error (%s) but the conversion succeeded (env %s)\n json: %s\n calls: %s", x.ErrWhy, envs, clip(out, 300), callsString(rec.calls))
			}
			w.Count("resp_expected_error")
		} else {
			if err != nil {
				w.Failf(tagOf("conforming-rejected"), facts, "conforming message rejected (env %s): %v", envs, err)
			}
			// JSON body
			tree, perr := parseJSONTree(out)
			if perr != nil {
				w.Failf(tagOf("malformed-output"), facts, "the JSON body does not parse (env %s): %v\n json: %s", envs, perr, clip(out, 400))
			}
			if kind, d := jsonMatches(tree, x.Body, "$", o.NoB64); kind != "" {
				w.Failf(tagOf(kind), facts, "JSON body: %s (env %s)\n json: %s\n calls: %s", d, envs, clip(out, 400), callsString(rec.calls))
			}
			// deliveries: exactly the expected ones, each with the field's value
			used := make([]bool, len(calls))
			for _, d := range x.Deliver {
				j := -1
				for i, c := range calls {
					if !used[i] && c.Kind == d.Kind && (c.Key == d.Key || d.Kind == "header" && strings.EqualFold(c.Key, d.Key)) {
						j = i
						break
					}
				}
				if j < 0 {
					w.Failf(tagOf("missing-field"), facts, "field %s (%s) was not delivered to %s(%s) (env %s)\n json: %s\n calls: %s", d.F.Name, typeName(d.F.T), d.Kind, d.Key, envs, clip(out, 300), callsString(rec.calls))
				}
				used[j] = true
				ok := false
				if isScalar(d.F.T) {
					ok = textMatches(calls[j].Val, d.Val, o.NoB64)
				} else if tr, e := parseJSONTree([]byte(calls[j].Val)); e == nil {
					kind, _ := jsonMatches(tr, d.Val, "$", o.NoB64)
					ok = kind == ""
				}
				if !ok {
					w.Failf(tagOf("wrong-value"), facts, "field %s (%s) delivered to %s(%s) as %q, expected %s (env %s)", d.F.Name, typeName(d.F.T), d.Kind, d.Key, clip([]byte(calls[j].Val), 200), showVal(d.Val), envs)
				}
			}
			for i, c := range calls {
				if !used[i] {
					w.Failf(tagOf("unexpected-field"), facts, "unexpected delivery %s(%s)=%q (env %s)\n calls: %s", c.Kind, c.Key, clip([]byte(c.Val), 100), envs, callsString(rec.calls))
				}
			}
			w.Count("resp_outputs_equal_to_model")
		}
		// same message, every environment: same JSON and same deliveries
		cs := callsString(calls)
		if k == 0 {
			firstJSON, firstCalls, firstErr = out, cs, err != nil
		} else if firstErr != (err != nil) || err == nil && (!bytes.Equal(firstJSON, out) || firstCalls != cs) {
			w.Failf(tagOf("env-dependent"), facts, "same message, different result:\n A: %s | %s\n B (%s): %s | %s", clip(firstJSON, 300), firstCalls, envs, clip(out, 300), cs)
		}
	}
	w.sample = map[string]interface{}{"direction": "response", "idl_bytes": len(sch.Sch.IDL), "kinds": kindMask(sch.KindsUsed), "options": fmt.Sprintf("%+v", opts), "flavour": flavour, "failing_setters": len(failed)}
}
