package main

import (
	"bytes"
	"context"
	"fmt"
	"os"

	"github.com/cloudwego/dynamicgo/conv"
	"github.com/cloudwego/dynamicgo/conv/j2t"
	"github.com/cloudwego/dynamicgo/internal/simrt"
	"github.com/cloudwego/dynamicgo/meta"
	"github.com/cloudwego/dynamicgo/thrift"
	"github.com/cloudwego/dynamicgo/thrift/base"
)

const baseIDL = `namespace go base
struct TrafficEnv {
    1: bool Open = false,
    2: string Env = "",
}
struct Base {
    1: string LogID = "",
    2: string Caller = "",
    3: string Addr = "",
    4: string Client = "",
    5: optional TrafficEnv TrafficEnv,
    6: optional map<string, string> Extra,
}
struct BaseResp {
    1: string StatusMessage = "",
    2: i32 StatusCode = 0,
    3: optional map<string, string> Extra,
}
`

func sortedStrStrKeys(m map[string]string) []string {
	ks := make([]string, 0, len(m))
	for k := range m {
		ks = append(ks, k)
	}
	sortStrings(ks)
	return ks
}

func init() { register("C02", runC02) }

// drawJ2TKnobs shapes the scratch resources of the native FSM and the pooled buffers.
func drawJ2TKnobs(w *W) {
	t := w.T
	resetKnobs()
	conv.DefaultBufferSize = 4096
	if t.Chance(1, 2, "knob.any") {
		knobs.KeyCap = pickInt(t, "knob.keycap", -1, 0, 1, 8, 64)
		knobs.FieldCap = pickInt(t, "knob.fieldcap", -1, 0, 1, 2, 7)
		knobs.ReqsCap = pickInt(t, "knob.reqscap", -1, 0, 8, 64, 256)
		conv.DefaultBufferSize = pickInt(t, "knob.bufsize", 4096, 1, 16, 65536)
		w.Sig(fmt.Sprintf("knobs:%d/%d/%d/%d", knobs.KeyCap, knobs.FieldCap, knobs.ReqsCap, conv.DefaultBufferSize))
	}
	if t.Chance(1, 3, "knob.gc") {
		w.World.GCNum, w.World.GCDen, w.World.GCBudget = 1, pickInt(t, "knob.gcden", 4, 16, 64), 3
	}
	w.World.PoolFreshPct = pickInt(t, "knob.poolfresh", 20, 0, 50, 100)
}

// encodeReqBase: the request base as field 32000 of the root struct.
func encodeReqBase(rb *base.Base) []byte {
	b := []byte{tSTRUCT, 0x7d, 0x00}
	for i, s := range []string{rb.LogID, rb.Caller, rb.Addr, rb.Client} {
		b = append(b, tSTRING, 0, byte(i+1), byte(len(s)>>24), byte(len(s)>>16), byte(len(s)>>8), byte(len(s)))
		b = append(b, s...)
	}
	if rb.Extra != nil {
		b = append(b, tMAP, 0, 6, tSTRING, tSTRING, 0, 0, 0, byte(len(rb.Extra)))
		for _, k := range sortedStrStrKeys(rb.Extra) {
			v := rb.Extra[k]
			b = append(b, 0, 0, 0, byte(len(k)))
			b = append(b, k...)
			b = append(b, 0, 0, 0, byte(len(v)))
			b = append(b, v...)
		}
	}
	return append(b, 0)
}

func runC02(w *W) {
	t := w.T
	drawJ2TKnobs(w)
	flavour := drawFlavour(w)

	// ---- workload
	so := tgenOpts{MaxStructs: 1 + t.Intn(4, "sch.structs"), MaxFields: 1 + t.Intn(8, "sch.fields"), MaxDepth: 1 + t.Intn(3, "sch.depth"),
		BigIDs: t.Chance(1, 3, "sch.bigids"), ManyFields: t.Chance(1, 4, "sch.wide"), Aliases: t.Chance(1, 3, "sch.alias"),
		Requiredness: t.Chance(1, 2, "sch.req"), Recursive: t.Chance(1, 3, "sch.rec"), Defaults: t.Chance(1, 4, "sch.defaults"),
		// base64 binaries are the precondition of an open native finding (decode past the buffer's capacity):
		// they are generated in 1/5 of the worlds only, and there every output buffer - the caller's and the
		// ones the library grows - ends at an unmapped page, so that the overflow faults instead of corrupting the heap
		NoBinary: !t.Chance(1, 5, "sch.binary")}
	so.SplitFiles = t.Chance(1, 4, "sch.split")
	so.Typedefs, so.ZeroID = t.Chance(1, 3, "sch.typedefs"), t.Chance(1, 4, "sch.zeroid")
	// api.js_conv fields: under EnableValueMapping the native parser hands the member's text back to Go in the
	// middle of the document and is re-entered afterwards
	so.JSConv, so.JSConvScalars = t.Chance(1, 4, "sch.jsconv"), true
	so.MixedCaseAnno = t.Chance(1, 3, "sch.annocase")
	if t.Chance(1, 25, "sch.numbered") {
		so.NumberedFields = pickInt(t, "sch.numbered.n", 333, 120, 200, 500, 700)
		w.Count("worlds_with_numbered_fields")
	}
	w.World.GuardGrowth = !so.NoBinary
	// deep worlds: long chains of nested structs with wide requires-bitmaps over a small bitmap arena, so
	// that one conversion outgrows the arena several times while outer levels are still open
	deep := t.Chance(1, 10, "c02.deep")
	if deep {
		so.Recursive, so.ForceSelf, so.BigIDs = true, true, true
		knobs.ReqsCap = pickInt(t, "deep.reqscap", 0, 8, 64, 256, -1)
		w.World.GCNum, w.World.GCDen, w.World.GCBudget = 1, pickInt(t, "deep.gcden", 2, 4, 16), 12
		w.Sig(fmt.Sprintf("deep:reqs%d", knobs.ReqsCap))
	}
	sch := genSchema(t, so)
	if deep && t.Chance(1, 2, "deep.reqscap.exact") {
		// an arena that the bitmaps of the first k levels of the chain fill exactly
		maxID := 0
		for _, f := range sch.Root.St.Fields {
			if f.ID > maxID {
				maxID = f.ID
			}
		}
		knobs.ReqsCap = (1 + t.Intn(4, "deep.reqscap.k")) * (maxID/64 + 1) * 8
	}
	po := thrift.Options{}
	// thrift request base: a root field of type base.Base is filled from the context, in front of the JSON members
	var reqBase *base.Base
	var baseBytes []byte
	if t.Chance(1, 8, "sch.base") && sch.Root.St.ByID(32000) == nil {
		sch.AddInclude("base.thrift", baseIDL)
		sch.Root.St.RawFields = append(sch.Root.St.RawFields, "32000: base.Base Base")
		sch.IDL = renderIDL(sch)
		po.EnableThriftBase = true
		reqBase = &base.Base{LogID: string(vgenStr(t, 30)), Caller: string(vgenStr(t, 60)), Addr: "a", Client: ""}
		if t.Chance(1, 2, "base.extra") {
			reqBase.Extra = map[string]string{string(vgenStr(t, 8)): string(vgenStr(t, 200))}
		}
		baseBytes = encodeReqBase(reqBase)
		w.Count("worlds_with_thrift_base")
		w.Sig("thriftbase")
	}
	if so.Defaults {
		po.UseDefaultValue = t.Chance(1, 2, "parse.usedefault")
	}
	desc := parseThrift(w, sch, po)
	w.Logf("IDL:\n%s", sch.IDL)

	opts, wo := drawConvOptsJ2T(w)
	wo.UseDefaultValue = po.UseDefaultValue
	opts.String2Int64 = t.Chance(1, 5, "opt.string2int")
	opts.NoBase64Binary = t.Chance(1, 6, "opt.nobase64")
	opts.EnableThriftBase = reqBase != nil
	opts.EnableValueMapping = so.JSConv && t.Chance(2, 3, "opt.valuemapping")
	if opts.EnableValueMapping {
		w.Count("worlds_with_value_mapping")
		w.Sig("vm")
	}
	cv := j2t.NewBinaryConv(opts)
	if t.Chance(1, 4, "reopt.use") {
		// the converter starts life with other options and gets these by SetOptions
		cv = j2t.NewBinaryConv(otherOpts(t, opts))
		cv.SetOptions(opts)
		w.Count("converter_reconfigured_by_SetOptions")
	}
	w.Logf("conv.Options: %+v  flavour=%s", opts, flavour)
	ctx := context.Background()
	if reqBase != nil {
		ctx = context.WithValue(ctx, conv.CtxKeyThriftReqBase, reqBase)
	}

	ndocs := 1 + t.Intn(4, "ndocs")
	for d := 0; d < ndocs; d++ {
		if reqBase != nil && d > 0 && t.Chance(1, 2, "base.update") {
			// the caller stamps the same base object anew for the next request
			reqBase.LogID = string(vgenStr(t, 30))
			if t.Chance(1, 2, "base.update.extra") {
				reqBase.Extra = map[string]string{string(vgenStr(t, 8)): string(vgenStr(t, 60))}
			}
			baseBytes = encodeReqBase(reqBase)
			w.Count("request_base_updated_in_place")
		}
		vo := vgenOpts{MaxElems: 1 + t.Intn(12, "val.elems"), MaxStr: 1 + sizeClass(t, "val.maxstr", 5000), Depth: 1 + t.Intn(4, "val.depth"),
			PresentPct: pickInt(t, "val.present", 70, 100, 30, 0), NullPct: pickInt(t, "val.null", 0, 10, 40), UnknownPct: pickInt(t, "val.unknown", 0, 0, 10, 30),
			Shuffle: true, ASCIIKeys: false, LongDecimals: true, DenseLists: t.Chance(1, 4, "val.dense")}
		if opts.NoBase64Binary {
			vo.StrClass = 0
		}
		if deep {
			vo.Depth, vo.DeepSelf, vo.MaxElems, vo.MaxStr = 3+t.Intn(12, "deep.depth"), 90, 1+t.Intn(2, "deep.elems"), 1+t.Intn(40, "deep.maxstr")
		}
		vg := &vgen{t: t, o: vo}
		val := vg.value(sch.Root, vo.Depth)
		if opts.NoBase64Binary {
			textifyBinaries(vg, val)
		}
		style := &jsonStyle{t: t, WS: t.Intn(3, "js.ws"), Esc: t.Intn(3, "js.esc"), Num: t.Intn(2, "js.num"), QuoteNums: opts.String2Int64, NoBase64: opts.NoBase64Binary, NegZeroInt: t.Chance(1, 40, "js.negzeroint") && !opts.EnableValueMapping, ValueMapping: opts.EnableValueMapping}
		if t.Chance(1, 3, "js.trailing") {
			style.TrailingWS = t.Intn(40, "js.trailing.n")
		}
		js := style.render(val)
		w.CountN("value_mapped_members", uint64(style.UsedJSConv))
		stopMarks = stopMarks[:0]
		exp, experr := expectJ2T(append([]byte{}, baseBytes...), val, wo)
		stops := append([]int{}, stopMarks...)
		negative := ""
		if experr == expOK && t.Chance(1, 8, "doc.negative") && len(js) > 2 {
			// malformed inside the top-level value: cut the document short
			cut := 1 + t.Intn(len(js)-1, "doc.cut")
			js = js[:cut]
			negative = fmt.Sprintf("truncated at %d", cut)
		}
		w.Logf("doc %d (%d bytes, expect %d bytes, experr=%d %s): %s", d, len(js), len(exp), experr, negative, clip(js, 600))

		nenv := 2 + t.Intn(3, "nenv")
		for k := 0; k < nenv; k++ {
			env := drawJ2TEnvAt(w, exp, len(js), stops)
			b64 := hasBinary(val) && !opts.NoBase64Binary
			if b64 && env.DoInto {
				env.OutPlace = simrt.PlaceGuardEnd
			}
			if b64 && negative != "" {
				// one guard page only: a fault in a world with guarded output buffers is then a write past the
				// output capacity (open finding F01), never an over-read of the truncated input (F12)
				env.InPlace = simrt.PlaceHeap
			}
			w.NextOp(fmt.Sprintf("j2t doc %d env %s", d, env))
			w.opFacts = map[string]string{"negative": fmt.Sprint(negative != ""), "in_place": simrt.PlaceNames[env.InPlace], "last_byte": lastByteClass(js), "literal_near_end": fmt.Sprint(literalNearEnd(js)),
				"has_base64": fmt.Sprint(b64), "out_guarded": fmt.Sprint(b64)}
			r := runJ2T(w, &cv, desc, js, env, ctx)
			w.opFacts = nil
			w.T.NoteBytes(r.Out)
			facts := r.Facts
			facts["env"] = env.String()
			facts["last_member_null"] = fmt.Sprint(lastMemberNull(val))
			facts["has_binary"] = fmt.Sprint(hasBinary(val) && !opts.NoBase64Binary)
			facts["negzero_int_spelling"] = fmt.Sprint(style.UsedNegZero)
			facts["write_flags"] = fmt.Sprint(opts.WriteDefaultField || opts.WriteRequireField || opts.WriteOptionalField)
			facts["jsconv_null_member"] = fmt.Sprint(style.UsedJSConvNull > 0)
			if env.DoInto {
				w.Sig(fmt.Sprintf("cap:%s", capSig(env, len(exp), len(js))))
			}
			switch {
			case negative != "":
				if r.Err == nil {
					w.Failf("malformed-accepted", facts, "document %s was converted without error (env %s): %q -> %x", negative, env, clip(js, 300), clipb(r.Out, 200))
				}
				w.Count("negative_docs_rejected")
			case experr == expMissingRequired:
				if r.Err == nil {
					w.Failf("missing-required-accepted", facts, "required field absent but conversion succeeded (env %s)", env)
				}
				if !isErrCode(r.Err, meta.ErrMissRequiredField) {
					w.Failf("missing-required-wrong-error", facts, "required field absent: got error class %s: %v", errClass(r.Err), r.Err)
				}
				w.Count("missing_required_rejected")
			case experr == expUnknownField:
				if r.Err == nil {
					w.Failf("unknown-accepted", facts, "unknown member with DisallowUnknownField but conversion succeeded (env %s)", env)
				}
				w.Count("unknown_rejected")
			default:
				if r.Err != nil {
					w.Failf("conforming-rejected", facts, "conforming document rejected (env %s): %v\njson: %s", env, r.Err, clip(js, 400))
				}
				if !bytes.Equal(r.Out, exp) {
					facts["diff"] = diffShape(r.Out, exp)
					// the residue of F02 is looked for relative to the encoding that carries the stray bytes of F43, when
					// the document has api.js_conv i16 members (two open native findings in one output)
					ref, refwo := exp, wo
					if style.UsedJSConvI16 > 0 {
						wo43 := wo
						wo43.F43JSConvI16 = true
						exp43, _ := expectJ2T(append([]byte{}, baseBytes...), val, wo43)
						facts["equals_f43_model"] = fmt.Sprint(bytes.Equal(r.Out, exp43))
						ref, refwo = exp43, wo43
					}
					if len(baseBytes) == 0 {
						facts["null_header_residue"] = fmt.Sprint(nullHeaderResidue(r.Out, ref, val, refwo))
					} else if bytes.HasPrefix(r.Out, baseBytes) {
						facts["null_header_residue"] = fmt.Sprint(nullHeaderResidue(r.Out[len(baseBytes):], ref[len(baseBytes):], val, refwo))
					}
					w.Failf("wrong-bytes", facts, "output differs from the reference encoding (env %s)\n got: %x\nwant: %x\njson: %s", env, clipb(r.Out, 400), clipb(exp, 400), clip(js, 400))
				}
				w.Count("conforming_docs_ok")
			}
		}
	}
	// the same converter on another descriptor: a struct-typed member of the root as a root of its own (it has no
	// request base: nothing of the context's base may show in its encoding)
	for _, f := range sch.Root.St.Fields {
		if f.T.Kind != tSTRUCT || f.T.St == sch.Root.St || !t.Chance(1, 3, "substruct.use") {
			continue
		}
		fd := desc.Struct().FieldById(thrift.FieldID(f.ID))
		if fd == nil {
			break
		}
		vg := &vgen{t: t, o: vgenOpts{MaxElems: 1 + t.Intn(6, "substruct.elems"), MaxStr: 1 + sizeClass(t, "substruct.maxstr", 300), Depth: 1 + t.Intn(3, "substruct.depth"), PresentPct: 80, NullPct: pickInt(t, "substruct.null", 0, 20), Shuffle: true}}
		sv := vg.value(f.T, vg.o.Depth)
		if opts.NoBase64Binary {
			textifyBinaries(vg, sv)
		}
		if opts.EnableValueMapping || (hasBinary(sv) && !opts.NoBase64Binary) {
			break // the preconditions of F43 / F44 / F01 are judged in the document loop above
		}
		st := &jsonStyle{t: t, WS: t.Intn(3, "substruct.ws"), Esc: t.Intn(3, "substruct.esc"), Num: t.Intn(2, "substruct.num"), QuoteNums: opts.String2Int64, NoBase64: opts.NoBase64Binary}
		sjs := st.render(sv)
		sexp, sexperr := expectJ2T(nil, sv, wo)
		if sexperr != expOK {
			break
		}
		env := drawJ2TEnvAt(w, sexp, len(sjs), nil)
		w.NextOp(fmt.Sprintf("j2t member struct %s as a root of its own, env %s", f.T.St.Name, env))
		r := runJ2T(w, &cv, fd.Type(), sjs, env, ctx)
		r.Facts["last_member_null"] = fmt.Sprint(lastMemberNull(sv))
		r.Facts["write_flags"] = fmt.Sprint(opts.WriteDefaultField || opts.WriteRequireField || opts.WriteOptionalField)
		if r.Err != nil {
			w.Failf("conforming-rejected", r.Facts, "conforming document for the member struct %s rejected (env %s): %v\njson: %s", f.T.St.Name, env, r.Err, clip(sjs, 400))
		}
		if !bytes.Equal(r.Out, sexp) {
			r.Facts["null_header_residue"] = fmt.Sprint(nullHeaderResidue(r.Out, sexp, sv, wo))
			w.Failf("wrong-bytes", r.Facts, "member struct %s converted by the converter that converted the root: output differs from the reference encoding (env %s)\n got: %x\nwant: %x\njson: %s", f.T.St.Name, env, clipb(r.Out, 400), clipb(sexp, 400), clip(sjs, 400))
		}
		w.Count("member_struct_as_root")
		break
	}
	// an empty input (no body at all) with a request base in the context: the base is still delivered, in a well-formed
	// struct
	if reqBase != nil && t.Chance(1, 2, "emptybody.use") {
		var src []byte
		if t.Chance(1, 2, "emptybody.nil") {
			src = []byte{}
		}
		env := drawJ2TEnvAt(w, append(append([]byte{}, baseBytes...), 0), 0, nil)
		w.NextOp(fmt.Sprintf("j2t empty input (nil=%v) with a request base, env %s", src == nil, env))
		r := runJ2T(w, &cv, desc, src, env, ctx)
		if r.Err == nil {
			if !bytes.HasPrefix(r.Out, baseBytes) {
				w.Failf("empty-input-base-lost", r.Facts, "empty input, EnableThriftBase and a base in the context: the output %x does not start with the base %x (env %s)", clipb(r.Out, 200), clipb(baseBytes, 200), env)
			}
			if n, err := skipThrift(r.Out, tSTRUCT, 0); err != nil || n != len(r.Out) {
				w.Failf("empty-input-not-wellformed", r.Facts, "empty input: the output %x is not one well-formed struct (%v, %d of %d bytes)", clipb(r.Out, 200), err, n, len(r.Out))
			}
		}
		w.Count("empty_input_with_base")
	}
	// root-level scalar documents: the descriptor is a scalar type and the document is the value itself, possibly
	// followed by insignificant whitespace
	nroot := 0
	for _, f := range sch.Root.St.Fields {
		switch f.T.Kind {
		case tBOOL, tBYTE, tI16, tI32, tI64, tDOUBLE, tSTRING:
		default:
			continue
		}
		if nroot >= 3 || !t.Chance(1, 3, "rootscalar.use") || (f.T.Kind == tSTRING && f.T.Binary && (opts.NoBase64Binary || so.NoBinary)) {
			continue
		}
		nroot++
		v := (&vgen{t: t, o: vgenOpts{MaxStr: 1 + sizeClass(t, "rootscalar.maxstr", 300), FiniteOnly: true}}).value(f.T, 0)
		st := &jsonStyle{t: t, Esc: t.Intn(3, "rootscalar.esc"), Num: t.Intn(2, "rootscalar.num"), QuoteNums: opts.String2Int64, NoBase64: opts.NoBase64Binary}
		js := st.render(v)
		for k := t.Intn(4, "rootscalar.ws"); k > 0; k-- {
			js = append(js, []string{" ", "\n", "\r\n", "\t"}[t.Intn(4, "rootscalar.ws.kind")]...)
		}
		exp := encodeThrift(nil, v)
		fdesc := desc.Struct().FieldById(thrift.FieldID(f.ID)).Type()
		env := drawJ2TEnv(w, len(exp), len(js))
		b64 := f.T.Kind == tSTRING && f.T.Binary
		if b64 && env.DoInto {
			env.OutPlace = simrt.PlaceGuardEnd
		}
		w.NextOp(fmt.Sprintf("j2t root-level %s %s env %s", typeName(f.T), clip(js, 80), env))
		w.opFacts = map[string]string{"negative": "false", "in_place": simrt.PlaceNames[env.InPlace], "last_byte": lastByteClass(js), "literal_near_end": fmt.Sprint(literalNearEnd(js)),
			"has_base64": fmt.Sprint(b64), "out_guarded": fmt.Sprint(b64), "root_scalar": "true"}
		r := runJ2T(w, &cv, fdesc, js, env, context.Background())
		w.opFacts = nil
		w.T.NoteBytes(r.Out)
		facts := r.Facts
		facts["env"], facts["root_scalar"] = env.String(), "true"
		if r.Err != nil {
			w.Failf("conforming-rejected", facts, "root-level %s document rejected (env %s): %v\njson: %q", typeName(f.T), env, r.Err, clip(js, 200))
		}
		if !bytes.Equal(r.Out, exp) {
			w.Failf("wrong-bytes", facts, "root-level %s document converts to the wrong bytes (env %s)\n got: %x\nwant: %x\njson: %q", typeName(f.T), env, clipb(r.Out, 200), clipb(exp, 200), clip(js, 200))
		}
		w.Count("root_scalar_docs")
	}
	w.sample = map[string]interface{}{"idl_bytes": len(sch.IDL), "docs": ndocs, "options": fmt.Sprintf("%+v", opts), "flavour": flavour}
}

// lastByteClass classifies the final byte of a (possibly truncated) document.
func lastByteClass(js []byte) string {
	if len(js) == 0 {
		return "empty"
	}
	c := js[len(js)-1]
	switch {
	case c >= '0' && c <= '9', c == '-', c == '.', c == 'e', c == 'E', c == '+':
		return "number"
	case c == ' ' || c == '\n' || c == '\t' || c == '\r':
		return "space"
	case c == '"':
		return "quote"
	case c == '\\':
		return "backslash"
	case c == '{' || c == '[' || c == ',' || c == ':' || c == '}' || c == ']':
		return "punct"
	}
	return "other"
}

// literalNearEnd: one of the last 4 bytes is t, f or n (a JSON literal that cannot be complete).
func literalNearEnd(js []byte) bool {
	for i := len(js) - 1; i >= 0 && i >= len(js)-4; i-- {
		if js[i] == 't' || js[i] == 'f' || js[i] == 'n' {
			return true
		}
	}
	return false
}

var noClip = os.Getenv("VERIF_NOCLIP") != ""

func clip(b []byte, n int) string {
	if len(b) > n && !noClip {
		return string(b[:n]) + fmt.Sprintf("...(+%d)", len(b)-n)
	}
	return string(b)
}

func clipb(b []byte, n int) []byte {
	if len(b) > n && !noClip {
		return b[:n]
	}
	return b
}

func capSig(e j2tEnv, exp, js int) string {
	switch {
	case e.Delta < 0:
		return "tiny"
	case e.Delta >= 4096:
		return "huge"
	case js+e.Delta >= exp:
		return "fits"
	default:
		// bucket the shortfall
		s := exp - js - e.Delta
		switch {
		case s <= 4:
			return fmt.Sprintf("short%d", s)
		case s <= 16:
			return "short<=16"
		case s <= 64:
			return "short<=64"
		}
		return "short>64"
	}
}

func lastMemberNull(v *TVal) bool {
	if v == nil {
		return false
	}
	switch v.T.Kind {
	case tSTRUCT:
		n := len(v.Fields)
		if n > 0 && v.Fields[n-1].F != nil && v.Fields[n-1].V == nil {
			return true
		}
		for _, fv := range v.Fields {
			if fv.F != nil && lastMemberNull(fv.V) {
				return true
			}
		}
	case tLIST, tSET:
		for _, e := range v.List {
			if lastMemberNull(e) {
				return true
			}
		}
	case tMAP:
		for _, e := range v.Vals {
			if lastMemberNull(e) {
				return true
			}
		}
	}
	return false
}

func hasBinary(v *TVal) bool {
	if v == nil {
		return false
	}
	switch v.T.Kind {
	case tSTRING:
		return v.T.Binary
	case tSTRUCT:
		for _, fv := range v.Fields {
			if fv.F != nil && hasBinary(fv.V) {
				return true
			}
		}
	case tLIST, tSET:
		for _, e := range v.List {
			if hasBinary(e) {
				return true
			}
		}
	case tMAP:
		for _, e := range v.Vals {
			if hasBinary(e) {
				return true
			}
		}
	}
	return false
}

// textifyBinaries replaces binary payloads by valid UTF-8 text (NoBase64Binary worlds: the JSON
// string *is* the payload, and a JSON document must be valid UTF-8).
func textifyBinaries(g *vgen, v *TVal) {
	if v == nil {
		return
	}
	switch v.T.Kind {
	case tSTRING:
		if v.T.Binary {
			v.S = g.strVal(len(v.S) + 1)
		}
	case tSTRUCT:
		for _, fv := range v.Fields {
			if fv.F != nil {
				textifyBinaries(g, fv.V)
			}
		}
	case tLIST, tSET:
		for _, e := range v.List {
			textifyBinaries(g, e)
		}
	case tMAP:
		for _, e := range v.Vals {
			textifyBinaries(g, e)
		}
	}
}

// diffShape summarises how got differs from want (for known-finding predicates).
func diffShape(got, want []byte) string {
	if len(got) == len(want) {
		return "same-length"
	}
	if len(got) > len(want) {
		// is want obtainable by deleting one contiguous run from got?
		p := 0
		for p < len(want) && got[p] == want[p] {
			p++
		}
		extra := len(got) - len(want)
		if bytes.Equal(got[p+extra:], want[p:]) {
			return fmt.Sprintf("extra-run-%d", extra)
		}
		return "longer"
	}
	p := 0
	for p < len(got) && got[p] == want[p] {
		p++
	}
	miss := len(want) - len(got)
	if bytes.Equal(want[p+miss:], got[p:]) {
		return fmt.Sprintf("missing-run")
	}
	return "shorter"
}

// nullHeaderResidue characterises a mismatch (known finding F02): got equals want except that 3
// stray bytes were left at the unwind position of one or more structs whose LAST document member is
// null (the offsets come from the reference encoder). Returns the number of such residues, 0 if the
// mismatch has another shape.
func nullHeaderResidue(got, want []byte, val *TVal, wo writeOpts) int {
	var marks []int
	nullTailMarks = &marks
	expectJ2T(nil, val, wo)
	nullTailMarks = nil
	if len(marks) == 0 || len(got) <= len(want) || (len(got)-len(want))%3 != 0 {
		return 0
	}
	isMark := map[int]bool{}
	for _, m := range marks {
		isMark[m] = true
	}
	need := (len(got) - len(want)) / 3
	// try: insert 3 arbitrary bytes at a subset of the marked offsets (greedy left to right with backtracking over <= 2^k, k small)
	var rec func(i, j, n int) bool
	rec = func(i, j, n int) bool {
		for {
			if len(got)-i == len(want)-j {
				return n == need && bytes.Equal(got[i:], want[j:])
			}
			if isMark[j] && i+3 <= len(got) {
				// either a residue sits here ...
				if rec(i+3, j+0, n+1) && false {
					return true
				}
				saved := isMark[j]
				isMark[j] = false
				ok := rec(i+3, j, n+1)
				isMark[j] = saved
				if ok {
					return true
				}
			}
			// ... or not
			if j >= len(want) || i >= len(got) || got[i] != want[j] {
				return false
			}
			i++
			j++
		}
	}
	if rec(0, 0, 0) {
		return need
	}
	return 0
}
