package main

// C09: JSON -> Protobuf conversion encodes exactly the value the JSON denotes.
//
// What a simulator can vary here (DESIGN.md 9.8): the converter writes into a pooled write buffer whose
// capacity is whatever earlier calls left (the branch of FinishSpeculativeLength that re-allocates is
// taken only when the buffer is full at the moment a length prefix is widened), it runs on a pooled
// visitor that keeps residue of a call that failed half-way, and it holds unsafe views across
// allocations (GC). The workload is generated from the tape, the oracle is the reference
// implementation: the output must be accepted by it and decode to the model message, in every
// environment, and identically across environments.

import (
	"bytes"
	"context"
	"encoding/base64"
	"encoding/json"
	"fmt"
	pgeneric "github.com/cloudwego/dynamicgo/proto/generic"
	"strconv"
	"strings"

	"github.com/cloudwego/dynamicgo/conv"
	"github.com/cloudwego/dynamicgo/conv/j2p"
	"github.com/cloudwego/dynamicgo/internal/simrt"
	"github.com/cloudwego/dynamicgo/proto"
)

func init() { register("C09", runC09) }

type c09Style struct {
	t        *simrt.Tape
	ws       int // 0 compact, 1 some blanks, 2 newlines
	byName   int // 0 JSON names, 1 proto field names, 2 mixed
	nullPct  int // absent singular fields rendered as an explicit null
	unkPct   int // unknown members
	usedUnk  int
	usedNull int
	// override: one value spelled with a literal of another kind (negative document)
	override    *PVal
	overrideLit string
	// overrideField: one repeated field spelled as its first element alone, without the brackets, or one singular
	// message field spelled as an array holding the message (negative documents)
	overrideField *PFieldVal
	// emptyPct: empty repeated / map fields are spelled [] / {} instead of being left out
	emptyPct  int
	usedEmpty int
}

func (st *c09Style) sp(sb *strings.Builder) {
	switch st.ws {
	case 1:
		if st.t.Chance(1, 3, "pjs.ws") {
			sb.WriteByte(' ')
		}
	case 2:
		if st.t.Chance(1, 3, "pjs.ws") {
			sb.WriteString([]string{" ", "\n", "\t", "\r\n", "  "}[st.t.Intn(5, "pjs.ws.kind")])
		}
	}
}

func jsonQuote(s []byte) string {
	var bb bytes.Buffer
	enc := json.NewEncoder(&bb)
	enc.SetEscapeHTML(false)
	enc.Encode(string(s))
	return strings.TrimRight(bb.String(), "\n")
}

func (st *c09Style) key(f *PField) string {
	n := f.JSON
	switch st.byName {
	case 1:
		n = f.Name
	case 2:
		if st.t.Chance(1, 2, "pjs.key.byname") {
			n = f.Name
		}
	}
	return jsonQuote([]byte(n))
}

func (st *c09Style) scalar(sb *strings.Builder, v *PVal) {
	if st.override == v {
		sb.WriteString(st.overrideLit)
		return
	}
	switch v.K {
	case pkInt32, pkSint32, pkSfixed32, pkInt64, pkSint64, pkSfixed64, pkEnum:
		sb.WriteString(strconv.FormatInt(v.I, 10))
	case pkUint32, pkFixed32, pkUint64, pkFixed64:
		sb.WriteString(strconv.FormatUint(v.U, 10))
	case pkBool:
		if v.I != 0 {
			sb.WriteString("true")
		} else {
			sb.WriteString("false")
		}
	case pkDouble:
		sb.WriteString(strconv.FormatFloat(v.F, 'g', -1, 64))
	case pkFloat:
		sb.WriteString(strconv.FormatFloat(v.F, 'g', -1, 32))
	case pkString:
		sb.WriteString(jsonQuote(v.S))
	case pkBytes:
		sb.WriteString("\"" + base64.StdEncoding.EncodeToString(v.S) + "\"")
	case pkMessage:
		st.msg(sb, v.M)
	}
}

func mapKeyText(k *PVal) string {
	switch {
	case k.K == pkString:
		return jsonQuote(k.S)
	case k.K == pkBool:
		if k.I != 0 {
			return `"true"`
		}
		return `"false"`
	case k.K.isUnsigned():
		return `"` + strconv.FormatUint(k.U, 10) + `"`
	}
	return `"` + strconv.FormatInt(k.I, 10) + `"`
}

var c09Unknowns = []string{`1`, `"s"`, `null`, `true`, `{}`, `[]`, `{"a":[1,2,{"b":"}"}]}`, `[[],[[]],"]"]`, `-1.5e3`, `"\"\\"`, `{"x":{"y":{"z":null}}}`}

func (st *c09Style) msg(sb *strings.Builder, m *PMsgVal) {
	sb.WriteByte('{')
	first := true
	member := func() {
		if !first {
			sb.WriteByte(',')
		}
		first = false
		st.sp(sb)
	}
	unknown := func() {
		if st.unkPct > 0 && st.t.Chance(st.unkPct, 100, "pjs.unknown") {
			member()
			fmt.Fprintf(sb, `"unk_%d":%s`, st.t.Intn(1000, "pjs.unk.k"), c09Unknowns[st.t.Intn(len(c09Unknowns), "pjs.unk.v")])
			st.usedUnk++
		}
	}
	idx := make([]int, len(m.T.Fields))
	for i := range idx {
		idx[i] = i
	}
	if st.t.Chance(1, 2, "pjs.order") {
		for i := len(idx) - 1; i > 0; i-- {
			j := st.t.Intn(i+1, "pjs.order.j")
			idx[i], idx[j] = idx[j], idx[i]
		}
	}
	for _, i := range idx {
		f := m.T.Fields[i]
		fv := &m.F[i]
		unknown()
		switch f.Card {
		case cSingle:
			if !fv.Set {
				if st.nullPct > 0 && st.t.Chance(st.nullPct, 100, "pjs.null") {
					member()
					sb.WriteString(st.key(f))
					sb.WriteByte(':')
					st.sp(sb)
					sb.WriteString("null")
					st.usedNull++
				}
				continue
			}
			member()
			sb.WriteString(st.key(f))
			sb.WriteByte(':')
			st.sp(sb)
			if fv == st.overrideField {
				sb.WriteByte('[')
				st.scalar(sb, fv.V)
				sb.WriteByte(']')
				continue
			}
			st.scalar(sb, fv.V)
		case cRepeated:
			if len(fv.L) == 0 {
				if st.emptyPct > 0 && st.t.Chance(st.emptyPct, 100, "pjs.empty") {
					member()
					sb.WriteString(st.key(f))
					sb.WriteByte(':')
					st.sp(sb)
					sb.WriteString("[")
					st.sp(sb)
					sb.WriteString("]")
					st.usedEmpty++
				}
				continue
			}
			member()
			sb.WriteString(st.key(f))
			if fv == st.overrideField {
				sb.WriteByte(':')
				st.sp(sb)
				st.scalar(sb, fv.L[0])
				continue
			}
			sb.WriteString(":[")
			for k, e := range fv.L {
				if k > 0 {
					sb.WriteByte(',')
					st.sp(sb)
				}
				st.scalar(sb, e)
			}
			st.sp(sb)
			sb.WriteByte(']')
		case cMap:
			if len(fv.MK) == 0 {
				if st.emptyPct > 0 && st.t.Chance(st.emptyPct, 100, "pjs.empty") {
					member()
					sb.WriteString(st.key(f))
					sb.WriteString(":{")
					st.sp(sb)
					sb.WriteString("}")
					st.usedEmpty++
				}
				continue
			}
			member()
			sb.WriteString(st.key(f))
			sb.WriteString(":{")
			for k := range fv.MK {
				if k > 0 {
					sb.WriteByte(',')
				}
				st.sp(sb)
				sb.WriteString(mapKeyText(fv.MK[k]))
				sb.WriteByte(':')
				st.scalar(sb, fv.MV[k])
			}
			sb.WriteByte('}')
		}
	}
	unknown()
	st.sp(sb)
	sb.WriteByte('}')
}

// collectPScalars lists the scalar values of a message (for negative documents).
func collectPScalars(m *PMsgVal, out *[]*PVal) {
	add := func(v *PVal) {
		if v == nil {
			return
		}
		if v.K == pkMessage {
			collectPScalars(v.M, out)
		} else {
			*out = append(*out, v)
		}
	}
	for i := range m.F {
		fv := &m.F[i]
		if fv.Set {
			add(fv.V)
		}
		for _, e := range fv.L {
			add(e)
		}
		for _, e := range fv.MV {
			add(e)
		}
	}
}

// collectPContainers lists the non-empty repeated fields and the present singular message fields of a message.
func collectPContainers(m *PMsgVal, out *[]*PFieldVal) {
	for i := range m.F {
		fv := &m.F[i]
		f := m.T.Fields[i]
		switch {
		case f.Card == cRepeated && len(fv.L) > 0:
			*out = append(*out, fv)
		case f.Card == cSingle && fv.Set && fv.V.K == pkMessage:
			*out = append(*out, fv)
		}
		if fv.Set && fv.V.K == pkMessage {
			collectPContainers(fv.V.M, out)
		}
		for _, e := range fv.L {
			if e.K == pkMessage {
				collectPContainers(e.M, out)
			}
		}
		for _, e := range fv.MV {
			if e.K == pkMessage {
				collectPContainers(e.M, out)
			}
		}
	}
}

// wrongKindPLiteral spells a value of kind k with a JSON literal of a contradicting kind.
func wrongKindPLiteral(t *simrt.Tape, k pKind) string {
	switch k {
	case pkString, pkBytes:
		return []string{`17`, `true`, `{"a":1}`, `[1]`, `1.5`}[t.Intn(5, "neg.lit")]
	case pkBool:
		return []string{`"x"`, `1`, `{}`, `[true]`}[t.Intn(4, "neg.lit")]
	}
	return []string{`"abc"`, `true`, `{"a":1}`, `[1]`, `{}`}[t.Intn(5, "neg.lit")]
}

type c09Env struct {
	DoInto  bool
	InPlace int
	Cap     int
}

func (e c09Env) String() string {
	if e.DoInto {
		return fmt.Sprintf("DoInto cap=%d in=%s", e.Cap, simrt.PlaceNames[e.InPlace])
	}
	return "Do in=" + simrt.PlaceNames[e.InPlace]
}

func runC09(w *W) {
	t := w.T
	resetKnobs()
	conv.DefaultBufferSize = 4096
	if t.Chance(1, 2, "knob.any") {
		conv.DefaultBufferSize = pickInt(t, "knob.bufsize", 4096, 1, 16, 65536)
		knobs.PBBufCap = pickInt(t, "knob.pbbufcap", 0, 1, 16, 64, 127, 128, 129, 200, 256, 1000)
		if t.Chance(1, 3, "knob.pbbufcap.any") {
			knobs.PBBufCap = t.Intn(600, "knob.pbbufcap.n")
		}
		w.Sig(fmt.Sprintf("pbbuf:%d/buf:%d", knobs.PBBufCap/32, conv.DefaultBufferSize))
	}
	if t.Chance(1, 3, "knob.gc") {
		w.World.GCNum, w.World.GCDen, w.World.GCBudget = 1, pickInt(t, "knob.gcden", 4, 16, 64), 3
		w.Sig("gc")
	}
	w.World.PoolFreshPct = pickInt(t, "knob.poolfresh", 20, 0, 50, 100)
	w.World.StepLimit = 3000000

	// rare switches: preconditions of value-space questions that are not environment questions
	swU64High := t.Chance(1, 12, "sw.u64high")
	so := pgenOpts{MaxMsgs: 1 + t.Intn(4, "sch.msgs"), MaxFields: 1 + t.Intn(8, "sch.fields"), BigNums: t.Chance(1, 3, "sch.bignums"),
		Recursive: t.Chance(1, 3, "sch.rec"), JSONNames: t.Chance(1, 3, "sch.jsonnames"), Enums: t.Chance(1, 2, "sch.enums"), MsgChance: 3}
	so.KeyKinds = plainKeyKinds
	so.SharedMapNames, so.RecursiveAnyCard = t.Chance(1, 3, "sch.sharedmapnames"), t.Chance(1, 2, "sch.rec.anycard")
	sch := genPSchema(t, so)
	desc := parseProto(w, sch)
	opts := conv.Options{DisallowUnknownField: t.Chance(1, 4, "opt.disallow")}
	cv := j2p.NewBinaryConv(opts)
	ctx := context.Background()
	w.Logf("schema:\n%s\nDisallowUnknownField=%v pbbufcap=%d", sch.Text, opts.DisallowUnknownField, knobs.PBBufCap)
	w.worldFacts = map[string]string{"u64_high": fmt.Sprint(swU64High)}

	var reuse []byte
	ndocs := 1 + t.Intn(4, "ndocs")
	for d := 0; d < ndocs; d++ {
		vo := pvgenOpts{MaxElems: 1 + t.Intn(6, "val.elems"), MaxStr: 1 + sizeClass(t, "val.maxstr", 400), Depth: 1 + t.Intn(4, "val.depth"),
			PresentPct: pickInt(t, "val.present", 70, 100, 30, 0), U64High: swU64High, EmptyMsgs: true, NoNegZero: true, KeyMaxInt63: true, MaxNodes: 80, MsgPresentPct: 85}
		if t.Chance(1, 4, "val.wide") {
			// payloads that move nested length prefixes across the 1->2->3 byte boundaries
			vo.MaxStr = pickInt(t, "val.wide.str", 120, 126, 130, 16380, 16390, 300)
		}
		mv, _ := genPMessage(t, sch, vo)
		// deep chains: the root nested in itself through its singular self reference, beyond any stack the converter
		// may keep per level. Such a document is either refused or converted exactly
		deepChain := 0
		if t.Chance(1, 10, "val.deepchain") {
			for i, f := range sch.Root().Fields {
				if f.Card == cSingle && f.K == pkMessage && f.Msg == sch.Root() {
					deepChain = pickInt(t, "val.deepchain.n", 60, 126, 127, 128, 200, 253, 254, 255, 256, 257, 300, 511, 512, 600)
					for k := 0; k < deepChain; k++ {
						outer := newPMsgVal(sch.Root())
						outer.F[i] = PFieldVal{Set: true, V: &PVal{K: pkMessage, M: mv}}
						mv = outer
					}
					w.Count("deep_chain_documents")
					break
				}
			}
		}
		want, _, werr := refCanon(sch.Root().MD, sch.refEncode(mv))
		if werr != nil {
			w.Failf("harness-ref", nil, "reference cannot decode its own encoding: %v", werr)
		}
		st := &c09Style{t: t, ws: t.Intn(3, "pjs.wsmode"), byName: pickInt(t, "pjs.byname", 0, 0, 1, 2), nullPct: pickInt(t, "pjs.nullpct", 0, 0, 20), unkPct: pickInt(t, "pjs.unkpct", 0, 0, 15), emptyPct: pickInt(t, "pjs.emptypct", 0, 30, 100)}
		negative := ""
		if t.Chance(1, 12, "doc.negative.container") {
			var fs []*PFieldVal
			collectPContainers(mv, &fs)
			if len(fs) > 0 {
				st.overrideField = fs[t.Intn(len(fs), "doc.negative.container.which")]
				if st.overrideField.Set {
					negative = "a singular message field spelled as an array holding the message"
				} else {
					negative = "a repeated field spelled as its first element, without brackets"
				}
			}
		} else if t.Chance(1, 6, "doc.negative") {
			var sc []*PVal
			collectPScalars(mv, &sc)
			if len(sc) > 0 {
				v := sc[t.Intn(len(sc), "doc.negative.which")]
				st.override, st.overrideLit = v, wrongKindPLiteral(t, v.K)
				negative = fmt.Sprintf("a %s value spelled %s", v.K, st.overrideLit)
			}
		}
		var sb strings.Builder
		st.msg(&sb, mv)
		js := []byte(sb.String())
		expectErr := negative != "" || (st.usedUnk > 0 && opts.DisallowUnknownField)
		w.Logf("doc %d (%d bytes json, %d bytes proto, unknown=%d null=%d negative=%q): %s", d, len(js), len(want), st.usedUnk, st.usedNull, negative, clip(js, 500))

		var first []byte
		haveFirst := false
		firstEnv := ""
		nenv := 2 + t.Intn(3, "nenv")
		for k := 0; k < nenv; k++ {
			// a failing conversion right before the checked one: the pooled visitor and write buffer come back dirty
			if t.Chance(1, 4, "pre.fail") && len(js) > 2 {
				cut := 1 + t.Intn(len(js)-1, "pre.fail.cut")
				w.NextOp(fmt.Sprintf("j2p failing precursor (doc %d cut at %d)", d, cut))
				w.opFacts = map[string]string{"op": "precursor"}
				func() {
					saved := w.World.StepLimit
					w.World.StepLimit = w.World.Steps + uint64(400*len(js)) + 100000
					defer func() { w.World.StepLimit = saved }()
					cv.Do(ctx, desc, append([]byte{}, js[:cut]...))
				}()
				w.opFacts = nil
				w.Count("failing_precursor")
			}
			// other users of the proto write-buffer pool ran before: the next buffer the pool hands out has been
			// used (and, here, poisoned on its way back)
			if t.Chance(1, 3, "pre.churn") {
				w.NextOp("generic MarshalTo on the reference encoding (returns a write buffer to the pool)")
				pgeneric.NewRootValue(desc, sch.refEncode(mv)).MarshalTo(desc, &pgeneric.Options{})
				w.Count("pool_churn_marshalto")
			}
			env := c09Env{DoInto: t.Chance(1, 2, "env.into"), InPlace: pickInt(t, "env.inplace", simrt.PlaceHeap, simrt.PlaceGuardEnd, simrt.PlaceReadOnly)}
			if env.DoInto {
				env.Cap = pickInt(t, "env.cap", 0, 1, len(js), len(want), len(want)+1, 4096)
			}
			in := w.AllocData(js, env.InPlace)
			doc, tailOK := in.B, func() bool { return true }
			if env.InPlace == simrt.PlaceHeap && t.Chance(1, 2, "env.tail") {
				doc, tailOK = withTail(js) // the document is a prefix of a larger buffer of the caller's
			}
			w.NextOp(fmt.Sprintf("j2p doc %d env %s", d, env))
			facts := map[string]string{"env": env.String(), "negative": fmt.Sprint(negative != ""), "unknown_members": fmt.Sprint(st.usedUnk > 0), "null_members": fmt.Sprint(st.usedNull > 0), "deep_chain": fmt.Sprint(deepChain)}
			w.opFacts = facts
			var out []byte
			var err error
			saved := w.World.StepLimit
			w.World.StepLimit = w.World.Steps + uint64(400*len(js)) + 100000
			if env.DoInto {
				// one buffer variable for the whole series, as a caller converting a stream does: sometimes it
				// still holds the previous result, sometimes it is a fresh one of a tape-chosen capacity
				if env.Cap != 1 || reuse == nil {
					reuse = make([]byte, 0, env.Cap)
				} else {
					facts["buffer_holds_previous_result"] = "true"
					w.Count("dointo_buffer_holds_previous_result")
				}
				err = cv.DoInto(ctx, desc, doc, &reuse)
				out = reuse
			} else {
				out, err = cv.Do(ctx, desc, doc)
			}
			w.World.StepLimit = saved
			w.opFacts = nil
			if !tailOK() {
				w.Failf("input-modified", facts, "the conversion wrote into the caller's buffer behind the end of the JSON document (env %s)", env)
			}
			if !bytes.Equal(in.B, js) || !bytes.Equal(doc, js) {
				w.Failf("input-modified", facts, "the conversion modified the caller's JSON document (env %s)", env)
			}
			t.NoteBytes(out)
			w.Sig(fmt.Sprintf("into%v/%s/neg%v", env.DoInto, simrt.PlaceNames[env.InPlace], expectErr))
			if expectErr {
				if err == nil {
					kind := "contradicting-accepted"
					if negative == "" {
						kind = "unknown-accepted"
					}
					w.Failf(kind, facts, "%s but the conversion succeeded (env %s): %s\njson: %s", map[bool]string{true: negative, false: "unknown member + DisallowUnknownField"}[negative != ""], env, hexClip(out, 200), clip(js, 400))
				}
				w.Count("rejected_as_expected")
				continue
			}
			if err != nil && deepChain >= 60 {
				// a depth limit is the converter's to set; what it accepts must be right
				w.Count("deep_chain_refused")
				continue
			}
			if err != nil {
				w.Failf("conforming-rejected", facts, "conversion of a conforming document failed (env %s): %v\njson: %s", env, err, clip(js, 400))
			}
			got, _, rerr := refCanon(sch.Root().MD, out)
			if rerr != nil {
				w.Failf("reference-rejects", facts, "the reference implementation rejects the output (env %s): %v\n out: %s\njson: %s", env, rerr, hexClip(out, 400), clip(js, 400))
			}
			if !bytes.Equal(got, want) {
				w.Failf("wrong-message", facts, "the output decodes to a different message (env %s)\n out:        %s\n out(canon): %s\n want:       %s\njson: %s", env, hexClip(out, 300), hexClip(got, 300), hexClip(want, 300), clip(js, 400))
			}
			if haveFirst && !bytes.Equal(out, first) {
				w.Failf("env-dependent", facts, "the same document converts to different bytes under %s and %s\n%s\n%s", firstEnv, env, hexClip(first, 300), hexClip(out, 300))
			}
			first, haveFirst, firstEnv = append([]byte{}, out...), true, env.String()
			w.Count("conversions_checked")
		}
	}
	w.sample = map[string]interface{}{"docs": ndocs, "schema_bytes": len(sch.Text)}
	_ = proto.MESSAGE
}
