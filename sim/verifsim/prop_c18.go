package main

import (
	"bytes"
	"context"
	"encoding/base64"
	"encoding/json"
	"fmt"
	"math"
	"os"
	"strconv"
	"unicode/utf8"

	"github.com/cloudwego/dynamicgo/conv"
	"github.com/cloudwego/dynamicgo/conv/j2t"
	ijson "github.com/cloudwego/dynamicgo/internal/json"
	"github.com/cloudwego/dynamicgo/internal/native"
	"github.com/cloudwego/dynamicgo/internal/rt"
	"github.com/cloudwego/dynamicgo/internal/simrt"
	"github.com/cloudwego/dynamicgo/thrift"
)

func init() { register("C18", runC18) }

// c18Flavours: the native build replays every operation under each SIMD flavour in-process; the
// portable build has exactly one implementation. Cross-build agreement is checked by the driver
// on the comparison digest (w.cmp), which only mixes flavour-independent results.
func c18Flavours() []int {
	if buildFlavour == "portable" {
		return []int{-1}
	}
	return []int{0, 1, 2}
}

func c18Use(fl int) string {
	if fl < 0 {
		return "portable"
	}
	native.SimUse(fl)
	return flavourNames[fl]
}

// wrongKindLiteral returns a JSON literal whose kind contradicts t.
func wrongKindLiteral(w *W, t *TType, string2int bool) string {
	switch t.Kind {
	case tBOOL:
		return pickStr(w, "wk.bool", `1`, `"true"`, `[]`, `{}`)
	case tBYTE, tI16, tI32, tI64, tDOUBLE:
		if string2int {
			return pickStr(w, "wk.num", `true`, `[1]`, `{}`)
		}
		return pickStr(w, "wk.num", `true`, `"1"`, `[1]`, `{}`)
	case tSTRING:
		return pickStr(w, "wk.str", `1`, `true`, `[]`, `{}`)
	case tSTRUCT, tMAP:
		return pickStr(w, "wk.obj", `1`, `"x"`, `true`, `[]`)
	default:
		return pickStr(w, "wk.arr", `1`, `"x"`, `true`, `{}`)
	}
}

func pickStr(w *W, label string, xs ...string) string { return xs[w.T.Intn(len(xs), label)] }

// collectVals lists every present member value of a struct tree (candidates for a contradiction).
func collectVals(v *TVal, out *[]*TVal) {
	if v == nil {
		return
	}
	switch v.T.Kind {
	case tSTRUCT:
		for _, fv := range v.Fields {
			if fv.F != nil && fv.V != nil {
				*out = append(*out, fv.V)
				collectVals(fv.V, out)
			}
		}
	case tLIST, tSET:
		for _, e := range v.List {
			*out = append(*out, e)
			collectVals(e, out)
		}
	case tMAP:
		for _, e := range v.Vals {
			*out = append(*out, e)
			collectVals(e, out)
		}
	}
}

type c18Doc struct {
	js       []byte
	negative string
	thrift   []byte
	val      *TVal
}

// dropNullJSConv removes the null members of api.js_conv fields (the precondition of the open native finding F44).
func dropNullJSConv(v *TVal) {
	if v == nil {
		return
	}
	switch v.T.Kind {
	case tSTRUCT:
		o := v.Fields[:0]
		for _, fv := range v.Fields {
			if fv.F != nil && fv.F.JSConv && fv.V == nil {
				continue
			}
			dropNullJSConv(fv.V)
			o = append(o, fv)
		}
		v.Fields = o
	case tLIST, tSET:
		for _, e := range v.List {
			dropNullJSConv(e)
		}
	case tMAP:
		for _, e := range v.Vals {
			dropNullJSConv(e)
		}
	}
}

// jsconvMembers: the values that are members of api.js_conv fields.
func jsconvMembers(v *TVal) map[*TVal]bool {
	m := map[*TVal]bool{}
	var walk func(v *TVal)
	walk = func(v *TVal) {
		if v == nil {
			return
		}
		for _, fv := range v.Fields {
			if fv.F != nil && fv.F.JSConv && fv.V != nil {
				m[fv.V] = true
			}
			walk(fv.V)
		}
		for _, e := range v.List {
			walk(e)
		}
		for _, e := range v.Vals {
			walk(e)
		}
	}
	walk(v)
	return m
}

func runC18(w *W) {
	t := w.T
	resetKnobs()
	conv.DefaultBufferSize = 4096
	w.World.PoolFreshPct = 100 // pools are not the subject here; keep the tape consumption of both builds aligned

	// ---- workload first: no library call may draw before the workload is complete
	so := tgenOpts{MaxStructs: 1 + t.Intn(4, "sch.structs"), MaxFields: 1 + t.Intn(8, "sch.fields"), MaxDepth: 1 + t.Intn(3, "sch.depth"),
		BigIDs: t.Chance(1, 3, "sch.bigids"), ManyFields: t.Chance(1, 6, "sch.wide"), Aliases: t.Chance(1, 3, "sch.alias"),
		Requiredness: t.Chance(1, 2, "sch.req"), Recursive: t.Chance(1, 3, "sch.rec"), Defaults: t.Chance(1, 4, "sch.defaults")}
	// base64 binaries are the precondition of the open native finding F01 (decode past the output capacity): they
	// are generated in 1/5 of the worlds only, and there every output buffer ends at an unmapped page
	so.NoBinary = !t.Chance(1, 5, "sch.binary")
	// api.js_conv under EnableValueMapping: inlined in the native parser, apiJSConv.Write in the portable one. i16 fields
	// and null members are the preconditions of the open native findings F43 / F44 and stay out
	so.JSConv, so.JSConvScalars, so.JSConvNoI16 = t.Chance(1, 4, "sch.jsconv"), true, true
	w.World.GuardGrowth = !so.NoBinary
	w.worldFacts = map[string]string{"has_base64": fmt.Sprint(!so.NoBinary)}
	sch := genSchema(t, so)
	po := thrift.Options{UseDefaultValue: so.Defaults && t.Chance(1, 2, "parse.usedefault")}
	opts, wo := drawConvOptsJ2T(w)
	wo.UseDefaultValue = po.UseDefaultValue
	opts.String2Int64 = t.Chance(1, 5, "opt.string2int")
	opts.NoBase64Binary = t.Chance(1, 6, "opt.nobase64")
	opts.EnableValueMapping = so.JSConv && t.Chance(2, 3, "opt.vm")
	var docs []c18Doc
	ndocs := 1 + t.Intn(4, "ndocs")
	for d := 0; d < ndocs; d++ {
		vo := vgenOpts{MaxElems: 1 + t.Intn(10, "val.elems"), MaxStr: 1 + sizeClass(t, "val.maxstr", 2000), Depth: 1 + t.Intn(4, "val.depth"),
			PresentPct: pickInt(t, "val.present", 70, 100, 30), NullPct: pickInt(t, "val.null", 0, 10, 40), UnknownPct: pickInt(t, "val.unknown", 0, 0, 10, 30), Shuffle: true, LongDecimals: true, DenseLists: t.Chance(1, 3, "val.dense")}
		vg := &vgen{t: t, o: vo}
		val := vg.value(sch.Root, vo.Depth)
		if opts.NoBase64Binary {
			textifyBinaries(vg, val)
		}
		if opts.EnableValueMapping {
			dropNullJSConv(val)
		}
		style := &jsonStyle{t: t, WS: t.Intn(3, "js.ws"), Esc: t.Intn(3, "js.esc"), Num: t.Intn(2, "js.num"), QuoteNums: opts.String2Int64, NoBase64: opts.NoBase64Binary, ValueMapping: opts.EnableValueMapping}
		doc := c18Doc{thrift: encodeThrift(nil, val), val: val}
		if t.Chance(1, 5, "doc.negative") {
			var cands []*TVal
			collectVals(val, &cands)
			if len(cands) > 0 {
				v := cands[t.Intn(len(cands), "doc.negative.which")]
				lit := wrongKindLiteral(w, v.T, opts.String2Int64)
				if opts.EnableValueMapping && jsconvMembers(val)[v] {
					// under the value mapping a number in quotes (and, for a string field, a bare number) is the regular spelling
					lit = []string{"true", "{}", "[]", `{"a":1}`, "[1]"}[t.Intn(5, "doc.negative.jsconv")]
				}
				style.Override = map[*TVal]string{v: lit}
				doc.negative = fmt.Sprintf("a %s value spelled %s", typeName(v.T), lit)
				w.Sig(fmt.Sprintf("neg:%d>%s", v.T.Kind, lit))
			}
		}
		doc.js = style.render(val)
		docs = append(docs, doc)
	}
	// scalars for the text encoders
	nscal := 4 + t.Intn(12, "nscalars")
	ints := make([]int64, nscal)
	flts := make([]float64, nscal)
	strs := make([][]byte, nscal)
	vg := &vgen{t: t, o: vgenOpts{MaxStr: 5000}}
	for i := 0; i < nscal; i++ {
		ints[i] = vg.intFor(tI64)
		flts[i] = vg.floatVal()
		strs[i] = vg.strVal(1 + sizeClass(t, "scalar.strmax", 5000))
	}
	caps := make([]int, nscal)
	for i := range caps {
		// spare capacity of the output buffer at the moment the scalar is written: dense below 48
		// (the encoders reserve 21 / 32 bytes), plus lane-sized and roomy classes
		if t.Chance(3, 4, "scalar.cap.dense") {
			caps[i] = t.Intn(48, "scalar.cap")
		} else {
			caps[i] = pickInt(t, "scalar.cap.cls", 63, 64, 65, 4096)
		}
	}
	// sub-values (of every type, scalars included) for the skip comparison, each cut at a tape-chosen prefix
	type skipCase struct {
		kind byte
		b    []byte
		// the value is a MAP whose declared count has the sign bit set (precondition of the known finding F61)
		mapCountSign bool
	}
	var skips []skipCase
	for _, d := range docs {
		var subs []*TVal
		collectVals(d.val, &subs)
		for k := 0; k < 3 && len(subs) > 0; k++ {
			sv := subs[t.Intn(len(subs), "skip.sub")]
			b := encodeThrift(nil, sv)
			if len(b) > 0 && t.Chance(2, 3, "skip.sub.cut") {
				b = b[:t.Intn(len(b), "skip.sub.cut.at")]
			}
			skips = append(skips, skipCase{sv.T.Kind, b, false})
		}
	}
	// containers whose declared count was replaced by a boundary value (a stored-byte fault): both skippers
	// have to consume the same number of bytes or both fail, also where count x element size wraps 32 bits
	for _, d := range docs {
		var subs, conts []*TVal
		collectVals(d.val, &subs)
		for _, sv := range subs {
			if sv.T.Kind == tMAP || sv.T.Kind == tLIST || sv.T.Kind == tSET {
				conts = append(conts, sv)
			}
		}
		if len(conts) == 0 || !t.Chance(1, 2, "skip.count.use") {
			continue
		}
		sv := conts[t.Intn(len(conts), "skip.count.sub")]
		b := encodeThrift(nil, sv)
		at := 1
		if sv.T.Kind == tMAP {
			at = 2
		}
		if len(b) < at+4 {
			continue
		}
		counts := []uint32{0x7fffffff, 0x80000000, 0xffffffff, 0x40000000, 0x20000000, 0x10000000, 0x10000001, 0x08000000, 0x55555556, 0x1999999a, 0x00010000}
		c := counts[t.Intn(len(counts), "skip.count.val")]
		if t.Chance(1, 4, "skip.count.near") {
			c += uint32(t.Intn(5, "skip.count.delta")) - 2
		}
		b[at], b[at+1], b[at+2], b[at+3] = byte(c>>24), byte(c>>16), byte(c>>8), byte(c)
		skips = append(skips, skipCase{sv.T.Kind, b, sv.T.Kind == tMAP && c >= 0x80000000})
		w.Count("skip_count_damaged_container")
	}
	for _, c := range caps {
		w.Sig(fmt.Sprintf("cap%d", c))
	}
	// output side of the conversions: Do on the pooled buffer, or DoInto with a tape-chosen spare capacity
	// the converter is reconfigured in the middle of the series (SetOptions): the write flags and the unknown-field
	// switch change, everything that decides how a document is spelled stays
	reconfAt := -1
	opts2 := opts
	if t.Chance(1, 4, "reconf.use") {
		reconfAt = t.Intn(len(docs), "reconf.at")
		opts2.WriteDefaultField, opts2.WriteRequireField, opts2.WriteOptionalField = t.Chance(1, 2, "reconf.wd"), t.Chance(1, 2, "reconf.wr"), t.Chance(1, 2, "reconf.wo")
		opts2.DisallowUnknownField = t.Chance(1, 2, "reconf.du")
	}
	docCaps := make([]int, len(docs))
	for i := range docCaps {
		docCaps[i] = -1
		if t.Chance(1, 2, "doc.dointo") {
			docCaps[i] = pickInt(t, "doc.cap", 0, 1, 16, 64, len(docs[i].js), len(docs[i].js)+9, 4096)
		}
	}
	conv.DefaultBufferSize = pickInt(t, "knob.bufsize", 4096, 4096, 1, 16, 256)
	// container-keyed maps (legal Thrift, not expressible in JSON) for the skip comparison
	for k := 0; k < 2; k++ {
		i32, i64, str := &TType{Kind: tI32}, &TType{Kind: tI64}, &TType{Kind: tSTRING}
		kst := &TStruct{Name: "K", Fields: []*TField{{ID: 1, Name: "a", T: i32}, {ID: 2, Name: "b", T: str}}}
		shapes := []*TType{
			{Kind: tMAP, Key: &TType{Kind: tLIST, Elem: i32}, Elem: i64},
			{Kind: tMAP, Key: &TType{Kind: tSTRUCT, St: kst}, Elem: str},
			{Kind: tMAP, Key: &TType{Kind: tMAP, Key: str, Elem: i32}, Elem: &TType{Kind: tLIST, Elem: i32}},
			{Kind: tMAP, Key: &TType{Kind: tSET, Elem: i32}, Elem: &TType{Kind: tBOOL}},
		}
		tt := shapes[t.Intn(len(shapes), "skip.ckey.shape")]
		sv := (&vgen{t: t, o: vgenOpts{MaxElems: 3, MaxStr: 12, PresentPct: 100}}).value(tt, 3)
		b := encodeThrift(nil, sv)
		if len(b) > 0 && t.Chance(1, 3, "skip.ckey.cut") {
			b = b[:t.Intn(len(b), "skip.ckey.cut.at")]
		}
		skips = append(skips, skipCase{tMAP, b, false})
	}
	skipCuts := make([]int, len(docs))
	for i, d := range docs {
		if len(d.thrift) > 1 && t.Chance(1, 2, "skip.cut") {
			skipCuts[i] = 1 + t.Intn(len(d.thrift)-1, "skip.cut.at")
		}
	}
	// root-level scalars: the document is the value itself (descriptor of a scalar type), and it is a
	// prefix of a larger buffer whose next bytes read like a continuation of the token - every
	// implementation has to honour the length of the document
	type rootScalar struct {
		f    *TField
		js   []byte
		tail string
	}
	var rootScalars []rootScalar
	for _, f := range sch.Root.St.Fields {
		switch f.T.Kind {
		case tI64, tI32, tI16, tBYTE, tDOUBLE, tBOOL:
		default:
			continue
		}
		if len(rootScalars) >= 3 || !t.Chance(1, 2, "rootscalar.use") {
			continue
		}
		v := (&vgen{t: t, o: vgenOpts{MaxStr: 40, FiniteOnly: true}}).value(f.T, 0)
		js := (&jsonStyle{t: t, Num: t.Intn(2, "rootscalar.num")}).render(v)
		tails := []string{"", ".5", "e3", "E+2", "0", "9", "\"", ".", "e", "-1", "}", "x", " 1", "true"}
		rootScalars = append(rootScalars, rootScalar{f, js, tails[t.Intn(len(tails), "rootscalar.tail")]})
	}
	// ---- from here on the library runs
	desc := parseThrift(w, sch, po)
	cv := j2t.NewBinaryConv(opts)
	ctx := context.Background()
	w.Logf("IDL:\n%s\noptions %+v", sch.IDL, opts)
	fls := c18Flavours()

	cur := opts
	for di, d := range docs {
		if di == reconfAt {
			w.NextOp(fmt.Sprintf("SetOptions(%+v)", opts2))
			cv.SetOptions(opts2)
			cur = opts2
			w.Count("converter_reconfigured")
		}
		w.Logf("doc %d (%s): %q", di, d.negative, clip(d.js, 500))
		var ref []byte
		refErr := false
		for k, fl := range fls {
			name := c18Use(fl)
			w.NextOp(fmt.Sprintf("j2t doc %d under %s", di, name))
			w.opFacts = map[string]string{"flavour": name, "negative": fmt.Sprint(d.negative != "")}
			var out []byte
			var err error
			if docCaps[di] >= 0 {
				buf := make([]byte, 0, docCaps[di])
				err = cv.DoInto(ctx, desc, d.js, &buf)
				out = buf
			} else {
				out, err = cv.Do(ctx, desc, d.js)
			}
			w.opFacts = nil
			if d.negative != "" {
				if err == nil {
					w.Failf("contradicting-accepted", map[string]string{"flavour": name}, "%s: %s was accepted by the %s converter: %x\njson: %s", name, d.negative, name, clipb(out, 200), clip(d.js, 300))
				}
				w.Count("negative_rejected_" + name)
				continue
			}
			if k == 0 {
				ref, refErr = out, err != nil
				continue
			}
			// what a failed conversion leaves in the caller's buffer is not specified: only the verdicts are compared then
			if (err != nil) != refErr || (!refErr && !bytes.Equal(out, ref)) {
				w.Failf("flavours-disagree", map[string]string{"flavour": name}, "%s and %s disagree on doc %d\n%s: err=%v %x\n%s: err=%v %x\njson: %s", flavourNames[fls[0]], name, di, flavourNames[fls[0]], refErr, clipb(ref, 300), name, err, clipb(out, 300), clip(d.js, 300))
			}
			w.Count("flavour_agreement_" + name)
		}
		if os.Getenv("VERIF_FULL") != "" {
			w.Logf("   -> err=%v out(%d)=%x", refErr, len(ref), ref)
		} else {
			w.Logf("   -> err=%v out=%x", refErr, clipb(ref, 300))
		}
		if d.negative == "" {
			if lastMemberNull(d.val) && (cur.WriteDefaultField || cur.WriteRequireField || cur.WriteOptionalField) {
				// EXCLUDED from the cross-build comparison: the precondition of the open native finding F02
				// (last member null + unset fields to write + ERR_OOM_BUF at the closing brace leaves a stray
				// field header - judged under C02 / C16; seen here in thorough run seed 21, world 1160841)
				w.cmpMix([]byte("f02-precondition"))
				w.Count("cmp_skipped_f02_precondition")
			} else if refErr {
				w.cmpMix([]byte("rejected"))
			} else {
				w.cmpMix(ref)
			}
		}
	}

	for ri, rs := range rootScalars {
		whole := w.AllocData(append(append([]byte{}, rs.js...), rs.tail...), simrt.PlaceHeap)
		doc := whole.B[:len(rs.js)]
		fdesc := desc.Struct().FieldById(thrift.FieldID(rs.f.ID)).Type()
		var ref []byte
		refErr := false
		for k, fl := range fls {
			name := c18Use(fl)
			w.NextOp(fmt.Sprintf("j2t root scalar %d (%s %q followed by %q) under %s", ri, typeName(rs.f.T), rs.js, rs.tail, name))
			out, err := cv.Do(ctx, fdesc, doc)
			if k == 0 {
				ref, refErr = out, err != nil
				continue
			}
			if (err != nil) != refErr || (!refErr && !bytes.Equal(out, ref)) {
				w.Failf("flavours-disagree", map[string]string{"flavour": name, "root_scalar": "true"}, "%s and %s disagree on the root-level %s %q (followed by %q in the caller's buffer)\n%s: err=%v %x\n%s: err=%v %x", flavourNames[fls[0]], name, typeName(rs.f.T), rs.js, rs.tail, flavourNames[fls[0]], refErr, ref, name, err, out)
			}
		}
		w.Logf("   root scalar %d %s %q + %q -> err=%v out=%x", ri, typeName(rs.f.T), rs.js, rs.tail, refErr, clipb(ref, 40))
		w.Count("root_scalar_docs")
		if refErr {
			w.cmpMix([]byte("rejected"))
		} else {
			w.cmpMix(ref)
		}
	}

	// ---- SkipNative vs SkipGo
	for di, d := range docs {
		b := d.thrift
		if skipCuts[di] > 0 {
			b = b[:skipCuts[di]]
		}
		in := w.AllocData(b, simrt.PlaceGuardEnd)
		pg := thrift.BinaryProtocol{Buf: in.B}
		eg := pg.SkipGo(thrift.STRUCT, thrift.MaxSkipDepth)
		for _, fl := range fls {
			name := c18Use(fl)
			w.NextOp(fmt.Sprintf("skip msg %d (cut %d) under %s", di, skipCuts[di], name))
			pn := thrift.BinaryProtocol{Buf: in.B}
			en := pn.SkipNative(thrift.STRUCT, thrift.MaxSkipDepth)
			if (eg != nil) != (en != nil) || (eg == nil && pg.Read != pn.Read) {
				w.Failf("skip-disagree", map[string]string{"flavour": name}, "SkipGo (err=%v, read=%d) and SkipNative/%s (err=%v, read=%d) disagree on %x", eg, pg.Read, name, en, pn.Read, clipb(b, 200))
			}
			w.Count("skip_agreement")
		}
		w.Logf("   skip msg %d cut %d -> err=%v read=%d", di, skipCuts[di], eg, pg.Read)
		if eg == nil {
			w.cmpMix([]byte{byte(pg.Read), byte(pg.Read >> 8), byte(pg.Read >> 16)})
		} else {
			w.cmpMix([]byte("skip-error"))
		}
	}

	for si, sc := range skips {
		if len(sc.b) == 0 {
			continue
		}
		in := w.AllocData(sc.b, simrt.PlaceGuardEnd)
		pg := thrift.BinaryProtocol{Buf: in.B}
		eg := pg.SkipGo(thrift.Type(sc.kind), thrift.MaxSkipDepth)
		for _, fl := range fls {
			name := c18Use(fl)
			w.NextOp(fmt.Sprintf("skip sub-value %d (type %d, %d bytes) under %s", si, sc.kind, len(sc.b), name))
			pn := thrift.BinaryProtocol{Buf: in.B}
			en := pn.SkipNative(thrift.Type(sc.kind), thrift.MaxSkipDepth)
			if (eg != nil) != (en != nil) || (eg == nil && pg.Read != pn.Read) || pn.Read > len(sc.b) {
				w.Failf("skip-disagree", map[string]string{"flavour": name, "map_count_sign_bit": fmt.Sprint(sc.mapCountSign)}, "SkipGo (err=%v, read=%d) and SkipNative/%s (err=%v, read=%d) disagree on a value of type %d: %x", eg, pg.Read, name, en, pn.Read, sc.kind, clipb(sc.b, 200))
			}
			w.Count("skip_subvalue_agreement")
		}
	}

	// ---- text encoders against the standard library, per flavour
	for _, fl := range fls {
		name := c18Use(fl)
		for i := 0; i < nscal; i++ {
			w.NextOp(fmt.Sprintf("encoders #%d under %s (cap %d)", i, name, caps[i]))
			buf := make([]byte, 0, caps[i])
			got := ijson.EncodeInt64(buf, ints[i])
			if string(got) != strconv.FormatInt(ints[i], 10) {
				w.Failf("i64toa", map[string]string{"flavour": name}, "%s: EncodeInt64(%d) = %q", name, ints[i], got)
			}
			f := flts[i]
			got = ijson.EncodeFloat64(make([]byte, 0, caps[i]), f)
			back, err := strconv.ParseFloat(string(got), 64)
			if err != nil || math.Float64bits(back) != math.Float64bits(f) {
				w.Failf("f64toa", map[string]string{"flavour": name}, "%s: EncodeFloat64(%v / bits %016x) = %q which parses back to %v (%v)", name, f, math.Float64bits(f), got, back, err)
			}
			if !json.Valid(got) {
				w.Failf("f64toa-invalid-json", map[string]string{"flavour": name}, "%s: EncodeFloat64(%v) = %q is not a JSON number", name, f, got)
			}
			s := strs[i]
			if utf8.Valid(s) {
				src := w.AllocData(s, pickIntNoTape(i, simrt.PlaceGuardEnd, simrt.PlaceHeap, simrt.PlaceGuardFront))
				got = ijson.EncodeString(make([]byte, 0, caps[i]), rt.Mem2Str(src.B))
				var backS string
				if err := json.Unmarshal(got, &backS); err != nil || backS != string(s) {
					w.Failf("quote", map[string]string{"flavour": name}, "%s: EncodeString(%q) = %q does not parse back (%v)", name, clip(s, 100), clip(got, 150), err)
				}
			}
			// base64 of the same bytes (the native encoder has a SIMD path per flavour), source flush against a guard page
			bsrc := w.AllocData(s, pickIntNoTape(i+1, simrt.PlaceGuardEnd, simrt.PlaceHeap, simrt.PlaceGuardFront))
			got = ijson.EncodeBase64(make([]byte, 0, caps[i]), bsrc.B)
			if want := base64.StdEncoding.EncodeToString(s); string(got) != want {
				w.Failf("base64", map[string]string{"flavour": name}, "%s: EncodeBase64 of %d bytes = %q, want %q", name, len(s), clip(got, 120), clip([]byte(want), 120))
			}
			w.Count("encoder_checks_" + name)
		}
	}
	w.Sig(fmt.Sprintf("docs%d/s2i%v/nb%v/wd%v", len(docs), opts.String2Int64, opts.NoBase64Binary, opts.WriteDefaultField))
	w.sample = map[string]interface{}{"docs": len(docs), "flavours": len(fls), "scalars": nscal}
}

// pickIntNoTape chooses without drawing (the choice must not consume the tape after the workload is fixed).
func pickIntNoTape(i int, xs ...int) int { return xs[i%len(xs)] }
