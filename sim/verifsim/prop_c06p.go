package main

// C06, Protobuf side: damaged Protobuf messages and damaged JSON documents fed to the Protobuf
// read-side entry points (p2j, j2p, proto/generic reads and DOM loading, proto/binary readers,
// protowire). Same survival oracle as the Thrift side (c06.guarded): no panic, no fault on a guard
// page, bounded steps, bounded allocation.

import (
	"context"
	"fmt"

	"github.com/cloudwego/dynamicgo/conv"
	"github.com/cloudwego/dynamicgo/conv/j2p"
	"github.com/cloudwego/dynamicgo/conv/p2j"
	"github.com/cloudwego/dynamicgo/internal/simrt"
	"github.com/cloudwego/dynamicgo/proto"
	pbinary "github.com/cloudwego/dynamicgo/proto/binary"
	pgeneric "github.com/cloudwego/dynamicgo/proto/generic"
	"github.com/cloudwego/dynamicgo/proto/protowire"
)

// pmark is a structural position of a reference-encoded Protobuf message.
type pmark struct {
	Off, Len int
	Kind     byte // 'T' tag varint, 'L' length varint, 'V' varint value
}

// pbMarks walks the wire format (recursing into length-delimited payloads that parse as messages).
func pbMarks(b []byte, base int, depth int, ms *[]pmark) bool {
	for off := 0; off < len(b); {
		tag, n := refVarint(b[off:])
		if n <= 0 || tag>>3 == 0 {
			return false
		}
		*ms = append(*ms, pmark{base + off, n, 'T'})
		off += n
		switch tag & 7 {
		case 0:
			_, n := refVarint(b[off:])
			if n <= 0 {
				return false
			}
			*ms = append(*ms, pmark{base + off, n, 'V'})
			off += n
		case 1:
			if off+8 > len(b) {
				return false
			}
			off += 8
		case 5:
			if off+4 > len(b) {
				return false
			}
			off += 4
		case 2:
			l, n := refVarint(b[off:])
			if n <= 0 || l > uint64(len(b)-off-n) {
				return false
			}
			*ms = append(*ms, pmark{base + off, n, 'L'})
			off += n
			if depth < 6 && l > 0 {
				var sub []pmark
				if pbMarks(b[off:off+int(l)], base+off, depth+1, &sub) {
					*ms = append(*ms, sub...)
				}
			}
			off += int(l)
		default:
			return false
		}
	}
	return true
}

// refVarint is the harness's own varint reader (spec: little-endian base 128, at most 10 bytes).
func refVarint(b []byte) (uint64, int) {
	var v uint64
	for i := 0; i < len(b) && i < 10; i++ {
		v |= uint64(b[i]&0x7f) << (7 * uint(i))
		if b[i] < 0x80 {
			return v, i + 1
		}
	}
	return 0, -1
}

func refAppendVarint(b []byte, v uint64) []byte {
	for v >= 0x80 {
		b = append(b, byte(v)|0x80)
		v >>= 7
	}
	return append(b, byte(v))
}

var hugeVarints = []uint64{0x7fffffff, 0xffffffff, 0x80000000, 1 << 63, 1<<64 - 1, 1<<63 - 1, 0x7ffffff0, 1 << 32, 1 << 31, 0xffffff, 1 << 20}

func spliceBytes(b []byte, off, n int, repl []byte) []byte {
	nb := append([]byte{}, b[:off]...)
	nb = append(nb, repl...)
	return append(nb, b[off+n:]...)
}

func damageProto(w *W, msg []byte, ms []pmark, deepTag []byte) ([]byte, string) {
	t := w.T
	b := append([]byte{}, msg...)
	pickMark := func(kinds string) *pmark {
		var c []pmark
		for _, m := range ms {
			for i := 0; i < len(kinds); i++ {
				if m.Kind == kinds[i] {
					c = append(c, m)
				}
			}
		}
		if len(c) == 0 {
			return nil
		}
		return &c[t.Intn(len(c), "pfault.mark")]
	}
	if len(b) == 0 {
		return b, "empty"
	}
	switch t.Intn(9, "pfault.kind") {
	case 0, 1:
		cut := t.Intn(len(b), "pfault.cut")
		w.Count("pfault_truncate")
		return b[:cut], fmt.Sprintf("truncate@%d", cut)
	case 2, 3: // a length prefix (or a varint value) becomes a boundary value
		m := pickMark("L")
		if m == nil || t.Chance(1, 5, "pfault.len.value") {
			m = pickMark("LV")
		}
		if m == nil {
			return b[:len(b)/2], "truncate-half"
		}
		old, _ := refVarint(b[m.Off:])
		v := hugeVarints[t.Intn(len(hugeVarints), "pfault.len.v")]
		if t.Chance(1, 3, "pfault.len.small") {
			v = old + uint64(1+t.Intn(3, "pfault.len.plus"))
		} else if t.Chance(1, 6, "pfault.len.minus") && old > 0 {
			v = old - 1
		}
		w.Count("pfault_length")
		return spliceBytes(b, m.Off, m.Len, refAppendVarint(nil, v)), fmt.Sprintf("%c@%d=%#x", m.Kind, m.Off, v)
	case 4: // tag: another wire type (incl. groups and the invalid 6, 7), field number 0 or huge
		m := pickMark("T")
		if m == nil {
			return b[:len(b)/2], "truncate-half"
		}
		old, _ := refVarint(b[m.Off:])
		var v uint64
		switch t.Intn(4, "pfault.tag.how") {
		case 0, 1:
			v = old&^7 | uint64(t.Intn(8, "pfault.tag.wt"))
		case 2:
			v = old & 7 // field number 0
		default:
			v = uint64(pickInt(t, "pfault.tag.num", 1<<29-1, 1<<29, 1<<32-1, 19000, 536870911))<<3 | old&7
		}
		w.Count("pfault_tag")
		return spliceBytes(b, m.Off, m.Len, refAppendVarint(nil, v)), fmt.Sprintf("tag@%d=%#x", m.Off, v)
	case 5: // an over-long / unterminated varint in place of a tag, length or value
		m := pickMark("TLV")
		if m == nil {
			return b[:len(b)/2], "truncate-half"
		}
		n := pickInt(t, "pfault.varint.n", 10, 11, 12, 64)
		bad := make([]byte, n)
		for i := range bad {
			bad[i] = 0xff
		}
		if t.Chance(1, 2, "pfault.varint.term") {
			bad[n-1] = 0x7f
		}
		w.Count("pfault_overlong_varint")
		return spliceBytes(b, m.Off, m.Len, bad), fmt.Sprintf("overlong-varint(%d)@%d", n, m.Off)
	case 6: // nesting beyond any depth limit
		n := pickInt(t, "pfault.depth", 70, 1100, 5000, 20000)
		if len(deepTag) == 0 {
			deepTag = []byte{0x0a}
		}
		// innermost first: each level wraps the previous one as a length-delimited field
		var body []byte
		var nb []byte
		for i := 0; i < n; i++ {
			nb = append(nb[:0], deepTag...)
			nb = refAppendVarint(nb, uint64(len(body)))
			nb = append(nb, body...)
			body = append(body[:0], nb...)
			if len(body) > 1<<20 {
				break
			}
		}
		w.Count("pfault_deep_nesting")
		return append([]byte{}, body...), fmt.Sprintf("nesting x%d", n)
	case 7: // groups
		m := pickMark("T")
		at := 0
		if m != nil {
			at = m.Off
		}
		g := refAppendVarint(nil, uint64(1+t.Intn(30, "pfault.group.num"))<<3|3)
		if t.Chance(1, 2, "pfault.group.end") {
			g = refAppendVarint(nil, uint64(1+t.Intn(30, "pfault.group.num"))<<3|4)
		}
		w.Count("pfault_group")
		return spliceBytes(b, at, 0, g), fmt.Sprintf("group-tag@%d", at)
	default:
		n := 1 + t.Intn(4, "pfault.rand.n")
		for i := 0; i < n; i++ {
			b[t.Intn(len(b), "pfault.rand.off")] = byte(t.Draw(256, "pfault.rand.b"))
		}
		w.Count("pfault_random_bytes")
		return b, fmt.Sprintf("random x%d", n)
	}
}

func runC06Proto(w *W) {
	t := w.T
	w.World.PoolFreshPct = pickInt(t, "knob.poolfresh", 20, 0, 100)
	so := pgenOpts{MaxMsgs: 1 + t.Intn(3, "psch.msgs"), MaxFields: 1 + t.Intn(6, "psch.fields"), BigNums: t.Chance(1, 4, "psch.bignums"),
		Recursive: t.Chance(1, 2, "psch.rec"), Enums: t.Chance(1, 2, "psch.enums"), MsgChance: 3}
	so.KeyKinds = plainKeyKinds
	sch := genPSchema(t, so)
	desc := parseProto(w, sch)
	vo := pvgenOpts{MaxElems: 1 + t.Intn(5, "pval.elems"), MaxStr: 1 + sizeClass(t, "pval.maxstr", 200), Depth: 1 + t.Intn(4, "pval.depth"),
		PresentPct: pickInt(t, "pval.present", 70, 100, 40), KeyMaxInt63: true, NoNegZero: true, MaxNodes: 60, MsgPresentPct: 90}
	mv, _ := genPMessage(t, sch, vo)
	msg := sch.refEncode(mv)
	var ms []pmark
	pbMarks(msg, 0, 0, &ms)
	// tag of a (preferably self-typed) message field of the root, for the nesting fault
	var deepTag []byte
	for _, f := range sch.Root().Fields {
		if f.K == pkMessage && f.Card == cSingle && (deepTag == nil || f.Msg == sch.Root()) {
			deepTag = refAppendVarint(nil, uint64(f.Num)<<3|2)
		}
	}
	ctx := context.Background()
	copts := conv.Options{DisallowUnknownField: t.Chance(1, 4, "opt.du"), Int642String: t.Chance(1, 4, "opt.i64s")}
	pc := p2j.NewBinaryConv(copts)
	jc := j2p.NewBinaryConv(copts)
	js, jerr := pc.Do(ctx, desc, msg)
	if jerr != nil {
		js = []byte(`{}`)
	}
	js = append([]byte{}, js...)
	w.Logf("schema:\n%s\nmsg %d bytes: %s\njson: %s", sch.Text, len(msg), hexClip(msg, 600), clip(js, 300))
	gopts := &pgeneric.Options{}
	c := &c06{w: w}

	nfaults := 2 + t.Intn(6, "nfaults")
	for k := 0; k < nfaults; k++ {
		if t.Chance(1, 4, "fault.json") {
			bad, how := damageJSON(w, js)
			c.fault = "pjson:" + how
			place := pickInt(t, "in.place", simrt.PlaceGuardEnd, simrt.PlaceGuardFront, simrt.PlaceHeap, simrt.PlaceReadOnly)
			in := w.AllocData(bad, place)
			c.lastByte, c.place, c.litNearEnd = lastByteClass(bad), simrt.PlaceNames[place], "false"
			w.Logf("fault %s -> %d bytes %s (placed %s)", c.fault, len(bad), clip(bad, 200), simrt.PlaceNames[place])
			c.guarded("j2p.Do", len(bad), func() { jc.Do(ctx, desc, in.B) })
			if t.Chance(1, 2, "j2p.into") {
				c.guarded("j2p.DoInto", len(bad), func() {
					buf := make([]byte, 0, t.Intn(64, "j2p.cap"))
					jc.DoInto(ctx, desc, in.B, &buf)
				})
			}
			continue
		}
		bad, how := damageProto(w, msg, ms, deepTag)
		// a wide repeated field: thousands of small elements (packed run, or one record per element), sometimes cut
		if t.Chance(1, 12, "pfault.wide") {
			for _, f := range sch.Root().Fields {
				if f.Card != cRepeated || f.K == pkMessage {
					continue
				}
				n := pickInt(t, "pfault.wide.n", 3000, 1000, 8000, 20000)
				var wide []byte
				switch {
				case f.K == pkString || f.K == pkBytes:
					for i := 0; i < n; i++ {
						wide = refAppendVarint(wide, uint64(f.Num)<<3|2)
						wide = append(wide, 1, 'x')
					}
				case f.K.fixedWidth():
					sz := 8
					if f.K == pkFixed32 || f.K == pkSfixed32 || f.K == pkFloat {
						sz = 4
					}
					wide = refAppendVarint(wide, uint64(f.Num)<<3|2)
					wide = refAppendVarint(wide, uint64(n*sz))
					wide = append(wide, make([]byte, n*sz)...)
				case t.Chance(1, 2, "pfault.wide.unpacked"):
					for i := 0; i < n; i++ {
						wide = refAppendVarint(wide, uint64(f.Num)<<3|0)
						wide = append(wide, 1)
					}
				default:
					wide = refAppendVarint(wide, uint64(f.Num)<<3|2)
					wide = refAppendVarint(wide, uint64(n))
					wide = append(wide, make([]byte, n)...)
				}
				bad, how = wide, fmt.Sprintf("wide repeated field %d with %d elements", f.Num, n)
				if t.Chance(1, 2, "pfault.wide.cut") {
					bad = bad[:len(bad)-1]
					how += " (cut)"
				}
				w.Count("pfault_wide_repeated")
				break
			}
		}
		if t.Chance(1, 4, "fault.second") {
			var ms2 []pmark
			pbMarks(bad, 0, 0, &ms2)
			var h2 string
			bad, h2 = damageProto(w, bad, ms2, deepTag)
			how += "+" + h2
		}
		c.fault = "pb:" + how
		place := pickInt(t, "in.place", simrt.PlaceGuardEnd, simrt.PlaceGuardFront, simrt.PlaceHeap, simrt.PlaceReadOnly)
		in := w.AllocData(bad, place)
		c.lastByte, c.place, c.litNearEnd = "binary", simrt.PlaceNames[place], "false"
		b := in.B
		w.Logf("fault %s -> %d bytes %s (placed %s)", how, len(b), hexClip(b, 300), simrt.PlaceNames[place])
		pick := func(label string) bool { return t.Chance(1, 2, label) }
		if pick("ep.p2j") {
			c.guarded("p2j.Do", len(b), func() { pc.Do(ctx, desc, b) })
		}
		if pick("ep.pb.getbypath") {
			c.guarded("pb.Value.GetByPath", len(b), func() {
				v := pgeneric.NewRootValue(desc, b)
				for _, f := range sch.Root().Fields {
					g := v.GetByPath(pgeneric.NewPathFieldId(proto.FieldNumber(f.Num)))
					// the multi-step lookups below run also when the single step failed: they parse the field on their own
					if !g.IsError() {
						g.Raw()
					}
					switch f.Card {
					case cRepeated:
						v.GetByPath(pgeneric.NewPathFieldId(proto.FieldNumber(f.Num)), pgeneric.NewPathIndex(1))
						v.GetByPath(pgeneric.NewPathFieldId(proto.FieldNumber(f.Num)), pgeneric.NewPathIndex(1000))
					case cMap:
						if f.KeyK == pkString {
							v.GetByPath(pgeneric.NewPathFieldId(proto.FieldNumber(f.Num)), pgeneric.NewPathStrKey("k"))
						} else {
							v.GetByPath(pgeneric.NewPathFieldId(proto.FieldNumber(f.Num)), pgeneric.NewPathIntKey(1))
						}
					default:
						if f.K == pkMessage {
							for _, sf := range f.Msg.Fields {
								v.GetByPath(pgeneric.NewPathFieldId(proto.FieldNumber(f.Num)), pgeneric.NewPathFieldName(sf.Name))
							}
						}
					}
				}
			})
		}
		if pick("ep.pb.field") {
			// single-field lookups (by number and by name), element lookups by index and the accessor of the declared kind
			c.guarded("pb.Value.Field+accessor", len(b), func() {
				v := pgeneric.NewRootValue(desc, b)
				access := func(n pgeneric.Node, k pKind) {
					if n.IsError() {
						return
					}
					switch k {
					case pkBool:
						n.Bool()
					case pkUint32, pkUint64, pkFixed32, pkFixed64:
						n.Uint()
					case pkDouble, pkFloat:
						n.Float64()
					case pkString:
						n.String()
					case pkBytes:
						n.Binary()
					case pkMessage:
						n.Raw()
					default:
						n.Int()
					}
				}
				for _, f := range sch.Root().Fields {
					for k := 0; k < 2; k++ {
						var g pgeneric.Value
						if k == 0 {
							g = v.Field(proto.FieldNumber(f.Num))
						} else {
							g = v.FieldByName(f.Name)
						}
						if g.IsError() {
							continue
						}
						switch f.Card {
						case cSingle:
							access(g.Node, f.K)
						case cRepeated:
							g.Len()
							for _, i := range []int{0, 1, 2, 3, 4, 5, 6, 7, 8, 1000} {
								access(g.Index(i).Node, f.K)
							}
						default:
							g.Len()
							g.Raw()
						}
					}
				}
			})
		}
		if pick("ep.pb.interface") {
			c.guarded("pb.Value.Interface", len(b), func() {
				o := &pgeneric.Options{MapStructById: t.Chance(1, 2, "ep.pb.iface.byid")}
				pgeneric.NewRootValue(desc, b).Interface(o)
			})
		}
		if pick("ep.pb.children") {
			c.guarded("pb.Node.Children", len(b), func() {
				var out []pgeneric.PathNode
				v := pgeneric.NewRootValue(desc, b)
				v.Children(&out, true, gopts, desc)
			})
		}
		if pick("ep.pb.load") {
			c.guarded("pb.PathNode.Load+Marshal", len(b), func() {
				pn := pgeneric.PathNode{Node: pgeneric.NewRootValue(desc, b).Node}
				if pn.Load(t.Chance(1, 2, "ep.pb.load.rec"), gopts, desc) == nil {
					pn.Marshal(gopts)
				}
			})
		}
		if pick("ep.pb.marshalto") {
			c.guarded("pb.Value.MarshalTo", len(b), func() { pgeneric.NewRootValue(desc, b).MarshalTo(desc, gopts) })
		}
		if pick("ep.pb.fields") {
			c.guarded("pb.Value.Fields/GetMany", len(b), func() {
				v := pgeneric.NewRootValue(desc, b)
				var ids, ps []pgeneric.PathNode
				for _, f := range sch.Root().Fields {
					ids = append(ids, pgeneric.PathNode{Path: pgeneric.NewPathFieldId(proto.FieldNumber(f.Num))})
					ps = append(ps, pgeneric.PathNode{Path: pgeneric.NewPathFieldId(proto.FieldNumber(f.Num))})
				}
				v.Fields(ids, gopts)
				v.GetMany(ps, gopts)
			})
		}
		if pick("ep.pb.readany") {
			c.guarded("pb.ReadAnyWithDesc", len(b), func() {
				p := pbinary.BinaryProtocol{Buf: b}
				p.ReadAnyWithDesc(desc, false, t.Chance(1, 2, "ep.pb.readany.copy"), copts.DisallowUnknownField, t.Chance(1, 2, "ep.pb.readany.byname"))
			})
		}
		if pick("ep.pb.skip") {
			c.guarded("pb.Skip", len(b), func() {
				p := pbinary.BinaryProtocol{Buf: b}
				for i := 0; i < 64 && p.Read < len(p.Buf); i++ {
					_, wt, _, err := p.ConsumeTag()
					if err != nil {
						break
					}
					if p.Skip(wt, false) != nil {
						break
					}
				}
			})
		}
		if pick("ep.pb.wire") {
			c.guarded("protowire.Consume*", len(b), func() {
				for off := 0; off < len(b) && off < 64; off++ {
					protowire.ConsumeVarint(b[off:])
					protowire.ConsumeBytes(b[off:])
					protowire.ConsumeFixed32(b[off:])
					protowire.ConsumeFixed64(b[off:])
					protowire.BinaryDecoder{}.DecodeString(b[off:])
				}
			})
		}
	}
	if currentTier == "thorough" && len(msg) <= 300 {
		// exhaustive structural sweep of THIS message: every truncation offset, and every tag / length / varint
		// mark x every boundary value, through a fixed set of entry points with the input flush against an
		// unmapped page
		run := func(bad []byte, how string) {
			c.fault = "pb:" + how
			in := w.AllocData(bad, simrt.PlaceGuardEnd)
			c.lastByte, c.place, c.litNearEnd = "binary", "guard_end", "false"
			b := in.B
			c.guarded("p2j.Do", len(b), func() { pc.Do(ctx, desc, b) })
			c.guarded("pb.Node.Children", len(b), func() {
				var out []pgeneric.PathNode
				v := pgeneric.NewRootValue(desc, b)
				v.Children(&out, true, gopts, desc)
			})
			c.guarded("pb.Value.Interface", len(b), func() { pgeneric.NewRootValue(desc, b).Interface(gopts) })
			c.guarded("pb.Value.MarshalTo", len(b), func() { pgeneric.NewRootValue(desc, b).MarshalTo(desc, gopts) })
			c.guarded("pb.ReadAnyWithDesc", len(b), func() {
				p := pbinary.BinaryProtocol{Buf: b}
				p.ReadAnyWithDesc(desc, false, false, false, true)
			})
			in.Free()
			w.Count("sweep_faults")
		}
		for cut := 0; cut < len(msg); cut++ {
			run(msg[:cut], fmt.Sprintf("truncate@%d", cut))
		}
		for _, m := range ms {
			old, _ := refVarint(msg[m.Off:])
			var vals []uint64
			switch m.Kind {
			case 'L', 'V':
				vals = append(append([]uint64{}, hugeVarints...), old+1, old+2)
				if old > 0 {
					vals = append(vals, old-1)
				}
			case 'T':
				for wt := uint64(0); wt < 8; wt++ {
					if wt != old&7 {
						vals = append(vals, old&^7|wt)
					}
				}
				vals = append(vals, old&7, uint64(1<<29-1)<<3|old&7, uint64(1<<32-1)<<3|old&7)
			}
			for _, v := range vals {
				run(spliceBytes(msg, m.Off, m.Len, refAppendVarint(nil, v)), fmt.Sprintf("%c@%d=%#x", m.Kind, m.Off, v))
			}
			run(spliceBytes(msg, m.Off, m.Len, []byte{0xff, 0xff, 0xff, 0xff, 0xff, 0xff, 0xff, 0xff, 0xff, 0xff, 0xff}), fmt.Sprintf("overlong-varint@%d", m.Off))
		}
		w.Count("sweep_messages")
	}
	w.Sig(fmt.Sprintf("pb-faults%d", nfaults))
	w.sample = map[string]interface{}{"proto": true, "msg_bytes": len(msg), "faults": nfaults, "last_fault": c.fault}
}
