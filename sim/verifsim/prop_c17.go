package main

// prop_c17.go - world for property C17: HTTP mapping takes each annotated field from its declared
// source. Request direction (http/JSON -> Thrift) here; the response direction is in hresp.go, the
// generators, the decision-table model and the harness-owned Thrift decoder in hmodel.go.
//
// Triage record (unchanged tree; every disagreement was checked against the property statement and
// the documentation, and reproduced with a stand-alone program against /repo):
//
//   class                                   what fails                                              root cause
//   duplicate-field:after-oom-field         ids cached before ERR_OOM_FIELD are written twice       conv/j2t/impl_amd64.go handleError: FieldCache not reset before re-entry
//                                           (default cache size: > 4096 trace-back fields never     (native j2t_write_unset_fields restarts from the first field)
//                                           terminate, the cache grows by 4096 per round)
//   duplicate-field:after-oom-buf           same, re-entry caused by ERR_OOM_BUF inside              same; reachable at the default cache size (DoInto cap 8 for {"I":{}})
//                                           j2t_write_unset_fields
//   body-not-last                           api.body listed first, another source wins              thrift/annotation.go mapAnnotations: mapper-handled annotations (api.body) are appended last
//   body-ws                                 {"a":1 } + api.body on a number/bool/container: error   http/http.go GetMapBody: sonic Raw() keeps the trailing blanks
//   null-member-traceback                   {"a":null} + trace-back: "null" is taken as the value   http/http.go GetMapBody returns the literal null text
//   rhvf-without-mapping                    ReadHttpValueFallback without EnableHttpMapping: no      conv/j2t/conv.go toFlags: F_TRACE_BACK set without F_HTTP_MAPPING
//                                           missing-required error, no zero filling
//   httpconv-mapping-option-off             j2t.HTTPConv with options lacking EnableHttpMapping     conv/j2t/http_conv.go: flags computed before opts.EnableHttpMapping = true
//                                           does not map when the body is a JSON document
//   lazy-body                               FromUrl request: api.body / api.raw_body lost           http/http.go GetBody re-reads the consumed Request.Body (rawBody not cached)
//   reader-error-swallowed:lazy-read        body reader error -> empty body converted, nil error    http/http.go GetBody / GetMapBody drop the error
//   negative-byte-text (response)           byte -1 delivered to a header as "255"                  thrift/binary.go EncodeText: int64(b) of an unsigned byte
//   unset-field-mapping-failed (response)   zero-filled field falls back to the JSON body although  conv/t2j/impl.go handleUnsets ignores WriteHttpValueFallback
//                                           WriteHttpValueFallback is off (set fields are dropped)
//   panic@conv/j2t.(*BinaryConv).doNative   makeslice: len out of range                             native/thrift.c '}' case: bm_free_reqs before the fallible tb_write_struct_end;
//                                                                                                   ERR_OOM_BUF there frees the bitmap twice, reqs_cache.len underflows
//
// Each precondition is a rarely enabled generator switch (c17Switches) or an environment event and
// forms its own violation class (c17Cond.tag), so that it cannot eclipse the rest of the space.
// Exclusions (corners the documentation is silent about) are marked EXCLUDED in the sources.

import (
	"bytes"
	"context"
	"errors"
	"fmt"
	"github.com/cloudwego/dynamicgo/thrift/generic"
	"io"
	stdhttp "net/http"
	"net/url"
	"strings"

	"github.com/cloudwego/dynamicgo/conv"
	"github.com/cloudwego/dynamicgo/conv/j2t"
	dhttp "github.com/cloudwego/dynamicgo/http"
	"github.com/cloudwego/dynamicgo/internal/simrt"
	"github.com/cloudwego/dynamicgo/meta"
	"github.com/cloudwego/dynamicgo/thrift"
)

func init() { register("C17", runC17) }

// ---------------------------------------------------------------------------------------------
// simulated body reader (environment dimension E7)

const (
	rdWhole = iota
	rdByte
	rdChunks
	rdZeros
	nRdMode
)

var rdNames = []string{"whole", "byte", "chunks", "zero-reads"}

var errInjected = errors.New("simulated body reader failure")

type hReader struct {
	data      []byte
	pos       int
	chunks    []int // cyclic; 0 = a (0, nil) read
	ci        int
	eofWith   bool // the last chunk is returned together with io.EOF
	errAfter  int  // -1: no fault
	errWith   bool // the error is returned together with the last good bytes
	delivered bool // the injected error was returned to a caller
	reads     int
}

func (r *hReader) Read(p []byte) (int, error) {
	r.reads++
	if len(p) == 0 {
		return 0, nil
	}
	if r.errAfter >= 0 && r.pos >= r.errAfter {
		r.delivered = true
		return 0, errInjected
	}
	if r.pos >= len(r.data) {
		return 0, io.EOF
	}
	n := r.chunks[r.ci%len(r.chunks)]
	r.ci++
	if n == 0 {
		return 0, nil
	}
	if n > len(p) {
		n = len(p)
	}
	if n > len(r.data)-r.pos {
		n = len(r.data) - r.pos
	}
	if r.errAfter >= 0 && r.pos+n > r.errAfter {
		n = r.errAfter - r.pos
	}
	copy(p, r.data[r.pos:r.pos+n])
	r.pos += n
	if r.errAfter >= 0 && r.pos >= r.errAfter && r.errWith {
		r.delivered = true
		return n, errInjected
	}
	if r.pos == len(r.data) && r.eofWith && r.errAfter < 0 {
		return n, io.EOF
	}
	return n, nil
}

type readerPlan struct {
	Mode     int
	Chunks   []int
	EOFWith  bool
	ErrAfter int
	ErrWith  bool
}

func (p readerPlan) String() string {
	s := rdNames[p.Mode]
	if p.EOFWith {
		s += "+eof-with-data"
	}
	if p.ErrAfter >= 0 {
		s += fmt.Sprintf("+error-after-%d", p.ErrAfter)
		if p.ErrWith {
			s += "(with data)"
		}
	}
	return s
}

func drawReaderPlan(w *W, n int, allowFault bool) readerPlan {
	t := w.T
	p := readerPlan{Mode: t.Intn(nRdMode, "rd.mode"), ErrAfter: -1}
	switch p.Mode {
	case rdWhole:
		p.Chunks = []int{1 << 30}
	case rdByte:
		p.Chunks = []int{1}
	case rdChunks:
		k := 1 + t.Intn(4, "rd.nchunks")
		for i := 0; i < k; i++ {
			p.Chunks = append(p.Chunks, 1+sizeClass(t, "rd.chunk", 600))
		}
	case rdZeros:
		k := 2 + t.Intn(4, "rd.nchunks")
		nz := false
		for i := 0; i < k; i++ {
			c := 0
			if t.Chance(1, 2, "rd.nonzero") {
				c = 1 + sizeClass(t, "rd.chunk", 600)
				nz = true
			}
			p.Chunks = append(p.Chunks, c)
		}
		if !nz {
			p.Chunks = append(p.Chunks, 7)
		}
	}
	p.EOFWith = t.Chance(1, 3, "rd.eofwith")
	if allowFault && t.Chance(1, 10, "rd.fault") {
		p.ErrAfter = t.Intn(n+1, "rd.fault.at")
		p.ErrWith = t.Chance(1, 2, "rd.fault.with")
	}
	return p
}

func (p readerPlan) reader(data []byte) *hReader {
	return &hReader{data: data, chunks: p.Chunks, eofWith: p.EOFWith, errAfter: p.ErrAfter, errWith: p.ErrWith}
}

// ---------------------------------------------------------------------------------------------
// building the real request

const (
	ctorStd = iota // http.NewHTTPRequestFromStdReq
	ctorURL        // http.NewHTTPRequestFromUrl
)

var ctorNames = []string{"FromStdReq", "FromUrl"}

func (r *hRequest) url() string {
	u := "http://sim.local/a/b"
	if len(r.Query) > 0 {
		q := url.Values{}
		for _, kv := range r.Query {
			q.Add(kv.Key, kv.Text)
		}
		u += "?" + q.Encode()
	}
	return u
}

func (r *hRequest) contentType() string {
	switch r.BodyKind {
	case hbJSON:
		return "application/json"
	case hbForm, hbFormEmpty:
		return "application/x-www-form-urlencoded"
	}
	if r.EmptyJSONCT {
		return "application/json"
	}
	return ""
}

// build constructs the library's request object. The body is delivered through rd.
func (r *hRequest) build(ctor int, rd io.Reader, withContentType bool) (*dhttp.HTTPRequest, error) {
	var params []dhttp.Param
	for _, kv := range r.Path {
		if r.RefillParams {
			params = append(params, dhttp.Param{Key: kv.Key, Value: "stale-" + kv.Text})
			continue
		}
		params = append(params, dhttp.Param{Key: kv.Key, Value: kv.Text})
	}
	refill := func(req *dhttp.HTTPRequest, err error) (*dhttp.HTTPRequest, error) {
		if err == nil && r.RefillParams {
			for _, kv := range r.Path {
				req.Params.Set(kv.Key, kv.Text)
			}
		}
		return req, err
	}
	decorate := func(sr *stdhttp.Request) {
		for _, kv := range r.Header {
			sr.Header.Set(kv.Key, kv.Text)
		}
		for _, kv := range r.Cookie {
			sr.AddCookie(&stdhttp.Cookie{Name: kv.Key, Value: kv.Text})
		}
		if ct := r.contentType(); ct != "" && withContentType {
			sr.Header.Set("Content-Type", ct)
		}
	}
	switch ctor {
	case ctorStd:
		sr, err := stdhttp.NewRequest(r.Method, r.URI, rd)
		if err != nil {
			return nil, fmt.Errorf("harness: net/http.NewRequest: %v", err)
		}
		decorate(sr)
		return refill(dhttp.NewHTTPRequestFromStdReq(sr, params...))
	default:
		req, err := dhttp.NewHTTPRequestFromUrl(r.Method, r.URI, rd, params...)
		if err != nil {
			return nil, err
		}
		decorate(req.Request)
		return refill(req, nil)
	}
}

// ---------------------------------------------------------------------------------------------
// request generation

type c17Switches struct {
	BodyNotLast   bool // api.body may be listed in front of another source
	LazyBody      bool // body-derived annotations together with a lazily read body (FromUrl)
	LazyFault     bool // reader faults on a lazily read body
	RHVFNoMapping bool // control world with ReadHttpValueFallback left on
	BodyWS        bool // insignificant whitespace inside a JSON body that also serves api.body
	NullTraceback bool // JSON null members while the trace-back options are on
	HTTPConvNoOpt bool // j2t.HTTPConv called with options that do not have EnableHttpMapping set
}

// c17Cond are the rarely enabled generator switches / environment events that hold for one
// conversion. Each is the precondition of one known disagreement; tag() turns the applicable one
// into a class suffix, so that every precondition forms its own violation class and can neither
// eclipse nor be shrunk into an unrelated disagreement of the same kind.
type c17Cond struct {
	LazyBody, LazyRead, RHVFNoMap, OOMField, OOMBuf, BodyNotLast, BodyWS, NullTB, HTTPConvNoOpt bool
}

func (c c17Cond) tag(kind string) string {
	// Only the preconditions of OPEN findings form their own class. The ones that were repaired in
	// /repo (duplicate fields after OOM_FIELD/OOM_BUF re-entry, HTTPConv flag order, ReadHttpValueFallback
	// without mapping, trailing blanks / null in GetMapBody) are ordinary violations again if they return.
	switch {
	case kind == "reader-error-swallowed":
		if c.LazyRead {
			return "lazy-read"
		}
		return ""
	case c.LazyBody:
		return "lazy-body"
	case c.BodyNotLast:
		return "body-not-last"
	}
	return ""
}

func isRootField(s *hSchema, f *TField) bool {
	for _, x := range s.Root.Fields {
		if x == f {
			return true
		}
	}
	return false
}

// bodyHasNullMember reports whether the body document (at any depth) spells field f as null.
func bodyHasNullMember(v *TVal, f *TField) bool {
	if v == nil {
		return false
	}
	switch v.T.Kind {
	case tSTRUCT:
		for _, fv := range v.Fields {
			if fv.F == f && fv.V == nil {
				return true
			}
			if fv.F != nil && bodyHasNullMember(fv.V, f) {
				return true
			}
		}
	case tLIST, tSET:
		for _, e := range v.List {
			if bodyHasNullMember(e, f) {
				return true
			}
		}
	case tMAP:
		for _, e := range v.Vals {
			if bodyHasNullMember(e, f) {
				return true
			}
		}
	}
	return false
}

func genRequest(w *W, s *hSchema, o hOpts, bodyKind int, g *hvgen) *hRequest {
	t := w.T
	r := &hRequest{BodyKind: bodyKind, Method: "POST"}
	popPct := pickInt(t, "h.pop.pct", 50, 25, 80, 100, 0)
	g.forceAbsent = map[*TField]bool{}
	g.forceMember = map[*TField]*TVal{}
	form := bodyKind == hbForm || bodyKind == hbFormEmpty
	add := func(l *[]hSrcVal, sv hSrcVal) {
		if findSrc(*l, sv.Key, true) == nil {
			*l = append(*l, sv)
		}
	}
	for _, f := range s.Fields {
		root := isRootField(s, f)
		for _, a := range s.Annos[f] {
			switch a.Kind {
			case hkRawBody, hkRawURI, hkNoBodyStruct, hkHTTPCode:
				continue
			}
			pop := t.Chance(popPct, 100, "h.pop")
			if f.Req == reqRequired && !pop {
				// keep missing-required worlds (which check little else) a minority
				pop = t.Chance(3, 4, "h.pop.required")
			}
			if a.Kind == hkBody {
				switch {
				case bodyKind == hbJSON && root && a.Key == f.Key():
					// the body member of the field itself is the api.body source
					if pop {
						g.forceMember[f] = g.value(f.T, 1, 1)
					} else {
						g.forceAbsent[f] = true
					}
				case bodyKind == hbJSON:
					if pop && !o.Disallow {
						sv := g.source(f.T, a.Key)
						add(&r.BodyExtra, sv)
					}
				case form:
					if pop {
						add(&r.Form, g.source(f.T, a.Key))
					}
				}
				continue
			}
			if !pop {
				continue
			}
			sv := g.source(f.T, a.Key)
			switch a.Kind {
			case hkQuery:
				add(&r.Query, sv)
			case hkPath:
				add(&r.Path, sv)
			case hkHeader:
				add(&r.Header, sv)
			case hkCookie:
				if cookieSafe(sv.Text) {
					add(&r.Cookie, sv)
				}
			case hkForm:
				if form {
					add(&r.Form, sv)
				}
			}
		}
	}
	// ReadHttpValueFallback with a form body: an annotated field none of whose listed sources has a value
	// falls back to the http body, i.e. to the form member named by the field's own key.
	// EXCLUDED: required fields, and default fields with WriteDefaultField on - whether the fallback or the
	// missing-field error / zero filling wins when the body is not JSON is not documented; optional fields
	// are not tracked in empty-body worlds.
	if bodyKind == hbForm && o.RHVF && o.Mapping && !o.WD {
		annoKeys := map[string]bool{}
		for _, f := range s.Fields {
			for _, a := range s.Annos[f] {
				annoKeys[strings.ToLower(a.Key)] = true
			}
		}
		for _, f := range s.Root.Fields {
			if len(s.Annos[f]) == 0 || f.Req != reqDefault || annoKeys[strings.ToLower(f.Key())] || (f.T.Kind == tSTRUCT && s.NBS[f.T.St]) {
				continue
			}
			if t.Chance(1, 2, "h.formfallback.pop") {
				add(&r.Form, g.source(f.T, f.Key()))
			}
		}
	}
	rootT := s.Sch.Root
	switch bodyKind {
	case hbJSON:
		r.BodyDoc = g.bodyStruct(rootT, true, 0)
		for _, ex := range r.BodyExtra {
			st := &jsonStyle{t: t, NoBase64: g.noB64}
			fv := TFieldVal{UnknownKey: ex.Key, UnknownJSON: string(st.render(ex.Val))}
			at := t.Intn(len(r.BodyDoc.Fields)+1, "h.extra.at")
			r.BodyDoc.Fields = append(r.BodyDoc.Fields, TFieldVal{})
			copy(r.BodyDoc.Fields[at+1:], r.BodyDoc.Fields[at:])
			r.BodyDoc.Fields[at] = fv
		}
	case hbFormEmpty:
		r.BodyDoc = &TVal{T: rootT}
	}

	// TracebackRequredOrRootFields: values filed in the http request under the *key of a field*
	// that is missing from the JSON layer. Exactly one source per key (no search order is documented).
	// EXCLUDED: TracebackRequredOrRootFields without ReadHttpValueFallback (the documentation does
	// not say whether the former depends on the latter): nothing is populated then.
	if r.BodyDoc != nil && (o.RHVF || !o.Traceback) {
		var cands []*TField
		for _, f := range s.Root.Fields {
			cands = append(cands, f)
		}
		for _, st := range s.Sch.Structs {
			if st == s.Root || s.NBS[st] {
				continue
			}
			for _, f := range st.Fields {
				if f.Req == reqRequired {
					cands = append(cands, f)
				}
			}
		}
		for _, f := range cands {
			if f.T.Kind == tSTRUCT && s.NBS[f.T.St] {
				continue
			}
			// EXCLUDED: an un-annotated optional field that is not tracked in the requires-bitmap
			// (thrift.Options.SetOptionalBitmap off): whether such a field is "sought on http values"
			// is not documented.
			if f.Req == reqOptional && !o.SetOptBitmap && !(o.Mapping && len(s.Annos[f]) > 0) {
				continue
			}
			// EXCLUDED: a field that is present in the body as an explicit null - whether null means "absent,
			// keep seeking" or "given as nothing" is the null-vs-absent question no property states
			// (thorough run seed 21, world 129653: an optional annotated field, body member null, own-key query value)
			if bodyHasNullMember(r.BodyDoc, f) {
				continue
			}
			den := 3
			if !(o.RHVF && o.Traceback && o.Mapping) {
				den = 8 // must have no effect
			}
			if !t.Chance(1, den, "h.tb.pop") {
				continue
			}
			sv := g.source(f.T, f.Key())
			nsrc := 4
			if bodyKind == hbFormEmpty {
				nsrc = 5
			}
			switch t.Intn(nsrc, "h.tb.src") {
			case 0:
				add(&r.Query, sv)
			case 1:
				add(&r.Path, sv)
			case 2:
				add(&r.Header, sv)
			case 3:
				if cookieSafe(sv.Text) {
					add(&r.Cookie, sv)
				} else {
					add(&r.Query, sv)
				}
			default:
				add(&r.Form, sv)
			}
		}
	}

	// bytes
	switch bodyKind {
	case hbJSON:
		st := &jsonStyle{t: t, WS: t.Intn(3, "h.js.ws"), Esc: t.Intn(2, "h.js.esc"), Num: 0, NoBase64: g.noB64}
		if s.KindsUsed[hkBody] && o.Mapping && !g.bodyWS {
			// whitespace around a body member that api.body reads: BodyWS switch only
			st.WS = 0
		}
		r.BodyWS = st.WS > 0 && s.KindsUsed[hkBody] && o.Mapping
		r.Body = st.render(r.BodyDoc)
		r.JBytes = r.Body
	case hbForm, hbFormEmpty:
		q := url.Values{}
		for _, kv := range r.Form {
			q.Add(kv.Key, kv.Text)
		}
		r.Body = []byte(q.Encode())
		if bodyKind == hbFormEmpty {
			r.JBytes = []byte("{}")
		}
	}
	r.URI = r.url()
	r.HasNull = g.sawNull
	r.EmptyJSONCT = bodyKind == hbEmpty && t.Chance(1, 2, "h.empty.ct")
	return r
}

func (r *hRequest) describe() string {
	var sb strings.Builder
	p := func(name string, l []hSrcVal) {
		for _, kv := range l {
			fmt.Fprintf(&sb, "  %s %s = %q\n", name, kv.Key, clip([]byte(kv.Text), 200))
		}
	}
	fmt.Fprintf(&sb, "  %s %s\n", r.Method, r.URI)
	p("query", r.Query)
	p("path", r.Path)
	p("header", r.Header)
	p("cookie", r.Cookie)
	p("form", r.Form)
	fmt.Fprintf(&sb, "  body(%s, %d bytes): %s\n", hBodyNames[r.BodyKind], len(r.Body), clip(r.Body, 800))
	if r.BodyKind == hbFormEmpty {
		fmt.Fprintf(&sb, "  json document handed to the converter: %s\n", r.JBytes)
	}
	return sb.String()
}

// ---------------------------------------------------------------------------------------------
// environments

const (
	apiBinDo = iota
	apiBinDoInto
	apiHTTPDo
	apiHTTPDoInto
)

var apiNames = []string{"BinaryConv.Do", "BinaryConv.DoInto", "HTTPConv.Do", "HTTPConv.DoInto"}

type c17Env struct {
	API      int
	Ctor     int
	CT       bool // set the Content-Type header
	Reader   readerPlan
	FieldCap int
	KeyCap   int
	ReqsCap  int
	BufSize  int
	J2T      j2tEnv
	NoReq    bool // control worlds: no request in the context
	// MappingOptOff: j2t.HTTPConv is documented to convert "http request into thrift message" and
	// switches the mapping on by itself; the caller's options then need not carry EnableHttpMapping
	MappingOptOff bool
}

func (e c17Env) String() string {
	s := fmt.Sprintf("%s ctor=%s ct=%v reader=%s fieldcap=%d keycap=%d reqscap=%d bufsize=%d", apiNames[e.API], ctorNames[e.Ctor], e.CT, e.Reader, e.FieldCap, e.KeyCap, e.ReqsCap, e.BufSize)
	if e.MappingOptOff {
		s += " options-without-EnableHttpMapping"
	}
	if e.API == apiBinDoInto || e.API == apiHTTPDoInto || e.API == apiBinDo {
		s += " [" + e.J2T.String() + "]"
	}
	return s
}

var siteOOMField, siteOOMBuf = -2, -2

// oomHits reads the probes the overlay puts on handleError's `case types.ERR_OOM_FIELD` /
// `case types.ERR_OOM_BUF` clauses (re-entries of the native FSM).
func oomHits(w *W) (field, buf uint32) {
	if siteOOMField == -2 {
		siteOOMField, siteOOMBuf = -1, -1
		for i, n := range simrt.SiteNames {
			if strings.HasPrefix(n, "conv/j2t.") && strings.HasSuffix(n, "#ERR_OOM_FIELD") {
				siteOOMField = i
			}
			if strings.HasPrefix(n, "conv/j2t.") && strings.HasSuffix(n, "#ERR_OOM_BUF") {
				siteOOMBuf = i
			}
		}
	}
	if siteOOMField >= 0 && siteOOMField < len(w.World.SiteHits) {
		field = w.World.SiteHits[siteOOMField]
	}
	if siteOOMBuf >= 0 && siteOOMBuf < len(w.World.SiteHits) {
		buf = w.World.SiteHits[siteOOMBuf]
	}
	return
}

type c17Outcome struct {
	Err       error
	CtorErr   bool
	Out       []byte
	Delivered bool
	OOMField  uint32
	OOMBuf    uint32
	Facts     map[string]string
}

var msgHeaderCall = func(name string) []byte {
	b := []byte{0x80, 0x01, 0x00, 0x01}
	b = append(b, byte(len(name)>>24), byte(len(name)>>16), byte(len(name)>>8), byte(len(name)))
	b = append(b, name...)
	b = append(b, 0, 0, 0, 0) // seq id
	b = append(b, tSTRUCT, 0, 1)
	return b
}

// c17HTTPConv is the world's long-lived http converter (header and footer of the message are built once, at its
// construction, and shared by every later conversion); c17Churn runs another user of the library's pooled write buffers
// between two conversions.
var (
	c17HC       *j2t.HTTPConv
	c17HCFn     *thrift.FunctionDescriptor
	c17LastBody []byte
)

func c17HTTPConv(w *W, fn *thrift.FunctionDescriptor) *j2t.HTTPConv {
	if c17HC == nil || c17HCFn != fn {
		c17HC, c17HCFn = j2t.NewHTTPConv(meta.EncodingThriftBinary, fn), fn
		return c17HC
	}
	if len(c17LastBody) > 0 && w.T.Chance(1, 2, "httpconv.churn") {
		// a struct DOM marshalled in between: its first write into the pooled buffer is one byte
		pn := generic.PathNode{Node: generic.NewNode(thrift.STRUCT, c17LastBody)}
		if pn.Load(true, &generic.Options{}) == nil {
			pn.Marshal(&generic.Options{})
		}
		w.Count("httpconv_reused_after_dom_marshal")
	}
	return c17HC
}

// runC17Env performs one conversion of the request under env.
func runC17Env(w *W, sch *hSchema, desc *thrift.TypeDescriptor, fn *thrift.FunctionDescriptor, r *hRequest, opts conv.Options, env c17Env, expLen int) (res c17Outcome) {
	knobs.FieldCap, knobs.KeyCap, knobs.ReqsCap = env.FieldCap, env.KeyCap, env.ReqsCap
	conv.DefaultBufferSize = env.BufSize
	res = c17Outcome{Facts: map[string]string{"api": apiNames[env.API], "ctor": ctorNames[env.Ctor]}}
	rd := env.Reader.reader(r.Body)
	oomF0, oomB0 := oomHits(w)
	defer func() {
		f, b := oomHits(w)
		res.OOMField, res.OOMBuf = f-oomF0, b-oomB0
	}()
	var req *dhttp.HTTPRequest
	ctx := context.Background()
	if !env.NoReq {
		var err error
		req, err = r.build(env.Ctor, rd, env.CT)
		if err != nil {
			res.Err, res.CtorErr, res.Delivered = err, true, rd.delivered
			return res
		}
		ctx = context.WithValue(ctx, conv.CtxKeyHTTPRequest, req)
	}
	ctx = context.WithValue(ctx, conv.CtxKeyConvOptions, opts)
	switch env.API {
	case apiBinDo, apiBinDoInto:
		cv := j2t.NewBinaryConv(opts)
		je := env.J2T
		je.DoInto = env.API == apiBinDoInto
		o := runJ2T(w, &cv, desc, r.JBytes, je, ctx)
		res.Out, res.Err = o.Out, o.Err
		for k, v := range o.Facts {
			if k != "api" {
				res.Facts[k] = v
			}
		}
	case apiHTTPDo:
		if env.MappingOptOff {
			opts.EnableHttpMapping = false
		}
		hc := c17HTTPConv(w, fn)
		out, err := hc.Do(ctx, req, opts)
		res.Out, res.Err = out, err
	case apiHTTPDoInto:
		if env.MappingOptOff {
			opts.EnableHttpMapping = false
		}
		hc := c17HTTPConv(w, fn)
		je := env.J2T
		c := je.Prefix
		if je.Delta >= 0 {
			c = je.Prefix + je.Delta
		}
		ob := w.Alloc(c, je.OutPlace)
		buf := ob.B
		for i := 0; i < je.Prefix; i++ {
			buf = append(buf, byte(0xC0+i%16))
		}
		err := hc.DoInto(ctx, req, &buf, opts)
		res.Err = err
		if len(buf) > cap(buf) {
			w.Failf("len-exceeds-cap", map[string]string{"api": "HTTPConv.DoInto"}, "DoInto returned len(buf)=%d > cap(buf)=%d (env %s)", len(buf), cap(buf), env)
		}
		if !ob.CanaryOK() {
			w.Failf("canary", map[string]string{"api": "HTTPConv.DoInto"}, "bytes after the caller buffer's capacity were overwritten (env %s, cap %d)", env, c)
		}
		if len(buf) < je.Prefix {
			w.Failf("prefix-lost", nil, "DoInto shrank the buffer below the caller's prefix (env %s)", env)
		}
		for i := 0; i < je.Prefix; i++ {
			if buf[i] != byte(0xC0+i%16) {
				w.Failf("prefix-modified", nil, "DoInto modified the caller's prefix at %d (env %s)", i, env)
			}
		}
		res.Out = buf[je.Prefix:]
	}
	res.Delivered = rd.delivered
	if res.Err == nil && (env.API == apiHTTPDo || env.API == apiHTTPDoInto) {
		h := msgHeaderCall("Call")
		if len(res.Out) < len(h)+1 || !bytes.Equal(res.Out[:len(h)], h) || res.Out[len(res.Out)-1] != 0 {
			w.Failf("bad-envelope", res.Facts, "HTTPConv output does not start with the CALL header / end with the argument struct's STOP (env %s): %x", env, clipb(res.Out, 200))
		}
		res.Out = res.Out[len(h) : len(res.Out)-1]
		c17LastBody = append(c17LastBody[:0], res.Out...)
	}
	return res
}

func boolBits(bs ...bool) string {
	var sb strings.Builder
	for _, b := range bs {
		if b {
			sb.WriteByte('1')
		} else {
			sb.WriteByte('0')
		}
	}
	return sb.String()
}

func kindMask(m [nHKind]bool) string {
	var p []string
	for k := hKind(0); k < nHKind; k++ {
		if m[k] {
			p = append(p, hKindShort[k])
		}
	}
	return strings.Join(p, "+")
}

func fieldCapClass(c int) string {
	if c < 0 {
		return "default"
	}
	return fmt.Sprint(c)
}

// ---------------------------------------------------------------------------------------------
// the world

func resetC17Globals() {
	resetKnobs()
	j2tExtraSteps = 0
	conv.DefaultBufferSize = 4096
	conv.DefaulHttpValueBufferSizeForJSON = 1024
	conv.DefaulHttpValueBufferSizeForScalar = 64
	dhttp.DefaultJsonPairSize = 16
}

func runC17(w *W) {
	c17HC, c17HCFn, c17LastBody = nil, nil, nil // per world
	t := w.T
	resetC17Globals()
	defer resetC17Globals()
	flavour := drawFlavour(w)
	if t.Chance(1, 6, "c17.response") {
		runC17Resp(w, flavour)
		return
	}

	// ---- rarely enabled generator switches: each is the precondition of one finding class
	var sw c17Switches
	sw.BodyNotLast = t.Chance(1, 12, "sw.bodynotlast")
	sw.LazyBody = t.Chance(1, 14, "sw.lazybody")
	sw.LazyFault = t.Chance(1, 14, "sw.lazyfault")
	sw.RHVFNoMapping = t.Chance(1, 8, "sw.rhvfnomap")
	sw.BodyWS = t.Chance(1, 12, "sw.bodyws")
	sw.NullTraceback = t.Chance(1, 12, "sw.nulltb")
	sw.HTTPConvNoOpt = t.Chance(1, 12, "sw.httpconvnoopt")

	// ---- options
	var o hOpts
	o.Mapping = !t.Chance(1, 12, "opt.control")
	o.RHVF = t.Chance(1, 2, "opt.rhvf")
	o.Traceback = t.Chance(1, 2, "opt.traceback")
	if t.Chance(2, 3, "opt.write.any") {
		o.WD = t.Chance(1, 2, "opt.writedefault")
		o.WR = t.Chance(1, 3, "opt.writerequire")
		o.WO = t.Chance(1, 3, "opt.writeoptional")
	}
	o.NoB64 = t.Chance(1, 4, "opt.nobase64")
	o.Disallow = t.Chance(1, 8, "opt.disallow")
	if !o.Mapping && !sw.RHVFNoMapping {
		o.RHVF = false
	}
	bodyKind := hbJSON
	if o.Mapping {
		bodyKind = pickInt(t, "body.kind", hbJSON, hbJSON, hbJSON, hbJSON, hbEmpty, hbForm, hbFormEmpty, hbJSON, hbEmpty, hbJSON)
	}
	nobody := bodyKind == hbEmpty || bodyKind == hbForm
	// optional fields are tracked in the requires-bitmap whenever WriteOptionalField is on, so that
	// "written when not given" means the same for annotated and un-annotated fields.
	o.SetOptBitmap = o.WO || t.Chance(1, 4, "parse.optbitmap")
	if nobody {
		o.SetOptBitmap = false
	}
	o.UseDefault = t.Chance(1, 2, "parse.usedefault")

	// ---- schema
	go_ := hGenOpts{
		NRoot:        1 + t.Intn(7, "sch.nroot"),
		AnnoPct:      pickInt(t, "sch.annopct", 60, 30, 90, 100),
		OptionalOnly: nobody,
		AllowNBS:     t.Chance(1, 4, "sch.nbs"),
		BodyNotLast:  sw.BodyNotLast,
		DeadHTTPCode: t.Chance(1, 6, "sch.httpcode"),
		Defaults:     t.Chance(1, 3, "sch.defaults"),
		Containers:   t.Chance(2, 3, "sch.containers"),
		Nested:       t.Chance(2, 3, "sch.nested"),
		Aliases:      t.Chance(1, 4, "sch.aliases"),
		// EXCLUDED: api.raw_body when the raw body is empty (whether an empty raw body "has a value"
		// is not documented) or form-encoded (the form parser consumes the body).
		NoRawBody: bodyKind != hbJSON,
		NoB64:     o.NoB64,
	}
	if t.Chance(1, 4, "sch.wide") {
		go_.NRoot = 8 + t.Intn(10, "sch.wide.n")
	}
	// "more root fields than the native field cache": the cache is shrunk by a knob in many worlds; rarely the
	// root really has more fields than the cache's default capacity (4096), so that the cache has to grow
	// from its real size while the unset fields are traced back
	if o.Mapping && o.RHVF && o.Traceback && bodyKind == hbJSON && t.Chance(1, 40, "sch.hugeroot") {
		go_.NRoot = 4100 + t.Intn(300, "sch.hugeroot.n")
		go_.AnnoPct, go_.Containers, go_.Nested = 2, false, false
		j2tExtraSteps = uint64(go_.NRoot) * 120
		w.Count("huge_root_worlds")
		w.Sig("hugeroot")
	}
	// a lazily read body (FromUrl, or FromStdReq without a parsed content type) together with
	// body-derived annotations is the LazyBody switch; otherwise worlds that use lazy constructors
	// do not generate api.body / api.form / api.raw_body.
	lazyOK := false
	if bodyKind == hbJSON || bodyKind == hbEmpty {
		if sw.LazyBody && bodyKind == hbJSON {
			lazyOK = true
		} else if t.Chance(1, 4, "sch.nobodykinds") {
			go_.NoBodyKinds = true
			lazyOK = true
		}
	}
	sch := genHSchema(t, go_)
	po := thrift.Options{SetOptionalBitmap: o.SetOptBitmap, UseDefaultValue: o.UseDefault}
	desc, fn := parseThriftFn(w, sch.Sch, po)
	w.Logf("IDL:\n%s", sch.Sch.IDL)

	opts := conv.Options{
		EnableHttpMapping:            o.Mapping,
		ReadHttpValueFallback:        o.RHVF,
		TracebackRequredOrRootFields: o.Traceback,
		WriteDefaultField:            o.WD,
		WriteRequireField:            o.WR,
		WriteOptionalField:           o.WO,
		NoBase64Binary:               o.NoB64,
		DisallowUnknownField:         o.Disallow,
		// options that only concern the response direction must not influence the request direction
		OmitHttpMappingErrors:  t.Chance(1, 4, "opt.omit"),
		WriteHttpValueFallback: t.Chance(1, 4, "opt.whvf"),
		UseKitexHttpEncoding:   t.Chance(1, 6, "opt.kitexenc"),
	}
	w.Logf("conv.Options: %+v  parse: SetOptionalBitmap=%v UseDefaultValue=%v flavour=%s switches=%+v", opts, o.SetOptBitmap, o.UseDefault, flavour, sw)

	// ---- request
	g := &hvgen{t: t, vg: &vgen{t: t, o: vgenOpts{}}, s: sch, noB64: o.NoB64, mapping: o.Mapping,
		presentPct: pickInt(t, "body.present", 70, 100, 30, 0), annoMemberPct: pickInt(t, "body.annomember", 30, 0, 70),
		nullPct: pickInt(t, "body.null", 0, 0, 10), unknownPct: pickInt(t, "body.unknown", 0, 0, 15)}
	if o.Disallow && !t.Chance(1, 4, "body.unknown.disallow") {
		g.unknownPct = 0
	}
	g.bodyWS = sw.BodyWS
	g.setOptBitmap = o.SetOptBitmap
	g.wo = o.WO
	if o.Mapping && o.RHVF && o.Traceback && !sw.NullTraceback {
		// a null member that the trace-back then finds in the body map: NullTraceback switch only
		g.nullPct = 0
	}
	req := genRequest(w, sch, o, bodyKind, g)
	if len(req.Path) > 0 && t.Chance(1, 3, "req.refillparams") {
		req.RefillParams = true
		w.Count("path_params_refilled_by_set")
	}
	w.Logf("request:\n%s", req.describe())

	// ---- oracle
	ev := &hEval{s: sch, r: req, o: o, relaxed: map[*TVal]map[int]bool{}}
	exp, experr := ev.evalStruct(sch.Sch.Root, req.BodyDoc, true, nobody)
	var expBytes []byte
	if experr == heNone {
		expBytes = canon(nil, exp)
	}
	w.Logf("expected: err=%s %x", hErrNames[experr], clipb(expBytes, 300))
	var popMask [nHKind]bool
	popMask[hkQuery], popMask[hkPath], popMask[hkHeader], popMask[hkCookie] = len(req.Query) > 0, len(req.Path) > 0, len(req.Header) > 0, len(req.Cookie) > 0
	popMask[hkForm], popMask[hkBody] = len(req.Form) > 0, len(req.BodyExtra) > 0 || len(g.forceMember) > 0
	for k := hKind(0); k < nHKind; k++ {
		w.CountN("expected_from_"+hKindShort[k], uint64(ev.used[k]))
	}
	w.CountN("expected_from_body_fallback", uint64(ev.usedFallbackBody))
	w.CountN("expected_from_form_body_fallback", uint64(ev.usedFormFallback))
	w.CountN("expected_from_traceback", uint64(ev.usedTraceback))
	w.CountN("expected_zero_or_default_filled", uint64(ev.usedZero))
	w.CountN("expected_left_absent", uint64(ev.usedNoValue))
	w.Count("body_" + hBodyNames[bodyKind])
	if g.usedCommaBlank {
		w.Count("comma_list_element_with_edge_blank")
	}
	if !o.Mapping {
		w.Count("control_worlds_mapping_off")
	}
	optSig := boolBits(o.Mapping, o.RHVF, o.Traceback, o.WD, o.WR, o.WO, o.NoB64, o.Disallow)
	// Facts are kept low-cardinality (the driver groups violations by class and facts): "cond" names
	// the generator switch / environment event the class suffix was derived from; everything that
	// varies from world to world goes into the "env" fact, which the driver ignores for grouping.
	worldInfo := fmt.Sprintf("kinds=%s populated=%s opts=%s body=%s rhvf=%v traceback=%v expect=%s", kindMask(sch.KindsUsed), kindMask(popMask), optSig, hBodyNames[bodyKind], o.RHVF, o.Traceback, hErrNames[experr])

	// ---- environments
	if t.Chance(1, 3, "knob.gc") {
		w.World.GCNum, w.World.GCDen, w.World.GCBudget = 1, pickInt(t, "knob.gcden", 4, 16, 64), 3
	}
	w.World.PoolFreshPct = pickInt(t, "knob.poolfresh", 20, 0, 50, 100)
	nenv := 2 + t.Intn(3, "nenv")
	var first *c17Outcome
	var firstEnv c17Env
	var firstCond c17Cond
	var cond c17Cond
	var envInfo string
	fail := func(kind string, format string, a ...interface{}) {
		tag := cond.tag(kind)
		facts := map[string]string{"env": envInfo, "cond": tag}
		switch tag {
		case "":
		case "after-oom-field", "after-oom-buf", "lazy-read":
			kind += ":" + tag
		default:
			// one class per known precondition, whatever shape the disagreement takes
			format = kind + ": " + format
			kind = tag
		}
		w.Failf(kind, facts, format, a...)
	}
	for k := 0; k < nenv; k++ {
		env := c17Env{FieldCap: -1, KeyCap: -1, ReqsCap: -1, BufSize: 4096, CT: true}
		env.J2T = j2tEnv{InPlace: simrt.PlaceHeap}
		// the first environment of half of the worlds is the plain one (default scratch sizes,
		// BinaryConv.Do, eager constructor, whole-body reader): the reference for the others
		if k > 0 || t.Chance(1, 2, "env.first.drawn") {
			if t.Chance(2, 3, "env.knobs") {
				env.FieldCap = pickInt(t, "env.fieldcap", 2, 0, 1, 7, -1)
				env.KeyCap = pickInt(t, "env.keycap", -1, 0, 1, 8, 64)
				env.ReqsCap = pickInt(t, "env.reqscap", -1, 0, 8, 64, 256)
				env.BufSize = pickInt(t, "env.bufsize", 4096, 1, 16, 65536)
			}
			env.API = t.Intn(4, "env.api")
			if !o.Mapping || bodyKind == hbFormEmpty {
				env.API = t.Intn(2, "env.api.bin")
			}
			env.J2T = drawJ2TEnvAt(w, expBytes, len(req.JBytes), nil)
			if env.API == apiHTTPDoInto {
				// the caller's buffer starts empty: capacity classes around the output size
				switch t.Intn(5, "env.http.cap") {
				case 0:
					env.J2T.Delta = -1
				case 1:
					env.J2T.Delta = t.Intn(40, "env.http.cap.small")
				case 2, 3:
					env.J2T.Delta = len(req.Body) + t.Intn(len(expBytes)+40, "env.http.cap.sweep")
				default:
					env.J2T.Delta = 8192
				}
			}
			if lazyOK && t.Chance(1, 2, "env.lazy") {
				env.Ctor = ctorURL
				if !sw.LazyBody {
					env.CT = t.Chance(1, 2, "env.lazy.ct")
				}
			}
			if sw.HTTPConvNoOpt && (env.API == apiHTTPDo || env.API == apiHTTPDoInto) {
				env.MappingOptOff = true
			}
			if !o.Mapping && t.Chance(1, 3, "env.noreq") {
				env.NoReq = true
			}
			eager := env.Ctor == ctorStd && env.CT && req.contentType() != ""
			env.Reader = drawReaderPlan(w, len(req.Body), eager || sw.LazyFault)
		} else {
			env.Reader = readerPlan{Mode: rdWhole, Chunks: []int{1 << 30}, ErrAfter: -1}
		}
		w.NextOp(fmt.Sprintf("j2t env %d: %s", k, env))
		envInfo = env.String() + " " + worldInfo
		cond = c17Cond{
			LazyBody:      env.Ctor == ctorURL && sw.LazyBody,
			LazyRead:      env.Ctor == ctorURL || !env.CT || req.contentType() == "",
			RHVFNoMap:     !o.Mapping && o.RHVF,
			BodyNotLast:   sch.BodyNotLast && o.Mapping,
			BodyWS:        req.BodyWS,
			NullTB:        req.HasNull && o.Mapping && o.RHVF && o.Traceback,
			HTTPConvNoOpt: env.MappingOptOff,
		}
		// history: a conversion of a STRIPPED request (same descriptor and options, no source populated,
		// body `{}`) right before the checked one. It usually fails half-way (missing required field,
		// inside the trace-back handler ...) and hands its state machine / caches back to the pools dirty.
		if o.Mapping && t.Chance(1, 3, "env.precursor") {
			stripped := &hRequest{Method: req.Method, BodyKind: req.BodyKind, Body: []byte("{}"), JBytes: []byte("{}"), URI: req.URI}
			penv := env
			penv.Reader = readerPlan{Mode: rdWhole, Chunks: []int{1 << 30}, ErrAfter: -1}
			w.NextOp("precursor: stripped request (result ignored)")
			w.opFacts = map[string]string{"env": envInfo, "precursor": "true"}
			runC17Env(w, sch, desc, fn, stripped, opts, penv, 16)
			w.Count("precursor_conversions")
		}
		w.opFacts = map[string]string{"env": envInfo}
		r := runC17Env(w, sch, desc, fn, req, opts, env, len(expBytes))
		w.opFacts = nil
		t.NoteBytes(r.Out)
		if r.Err != nil {
			t.Note(1)
		}
		cond.OOMField = r.OOMField > 0
		cond.OOMBuf = r.OOMBuf > 0
		w.Count("api_" + apiNames[env.API])
		w.Count("ctor_" + ctorNames[env.Ctor])
		w.Count("reader_" + rdNames[env.Reader.Mode])
		if env.Reader.EOFWith {
			w.Count("reader_eof_with_data")
		}
		w.Sig(fmt.Sprintf("k:%s|p:%s|o:%s|fc:%s|b:%s|oom:%v", kindMask(sch.KindsUsed), kindMask(popMask), optSig, fieldCapClass(env.FieldCap), hBodyNames[bodyKind], r.OOMField > 0))
		w.Logf("  -> err=%v out=%x", r.Err, clipb(r.Out, 300))

		// (1) injected reader failure
		if env.Reader.ErrAfter >= 0 {
			w.Count("reader_fault_planned")
			if r.Delivered {
				w.Count("reader_fault_delivered")
				if r.Err == nil {
					fail("reader-error-swallowed", "the body reader failed after %d of %d bytes (%s) but the request was converted without error (env %s)\n out: %x", env.Reader.ErrAfter, len(req.Body), env.Reader, env, clipb(r.Out, 200))
				}
				if r.CtorErr {
					w.Count("reader_fault_surfaced_by_constructor")
				} else {
					w.Count("reader_fault_surfaced_by_conversion")
				}
				continue
			}
			// never read up to the fault: the run counts as a fault-free one
		}
		if r.CtorErr {
			fail("conforming-rejected", "request constructor failed without an injected fault (env %s): %v", env, r.Err)
		}
		// (2) error expectation
		if experr != heNone {
			if r.Err == nil {
				fail("error-expected", "expected a %s error but the conversion succeeded (env %s)\n out: %x", hErrNames[experr], env, clipb(r.Out, 300))
			}
			w.Count("expected_error_" + hErrNames[experr])
			w.Count("error_class_" + errClass(r.Err))
		} else {
			if r.Err != nil {
				fail("conforming-rejected", "conforming request rejected (env %s): %v", env, r.Err)
			}
			got, issues := decodeOutput(r.Out, sch.Sch.Root)
			w.Count("outputs_decoded")
			for _, is := range issues {
				if is.Kind != "duplicate-field" {
					fail(is.Kind, "%s at %s (env %s)\n got: %x\nwant: %x", is.Detail, is.Path, env, clipb(r.Out, 400), clipb(expBytes, 400))
				}
			}
			for _, is := range issues {
				fail(is.Kind, "%s at %s (env %s)\n got: %x\nwant: %x", is.Detail, is.Path, env, clipb(r.Out, 400), clipb(expBytes, 400))
			}
			if d := compareTrees(exp, got, "$", ev.relaxed); d != nil {
				fi := ""
				if sch.BodyNotLast && o.Mapping {
					// attribute the difference to the body-not-last switch only if a field on the
					// path really lists api.body in front of another source
					bnl := false
					for _, cf := range d.Chain {
						if bodyNotLast(sch.Annos[cf]) {
							bnl = true
						}
					}
					cond.BodyNotLast = bnl
				}
				if d.F != nil {
					fi = fmt.Sprintf(" [field %s %s annotations=%s value-comes-from=%s]", typeName(d.F.T), d.F.Name, annoList(sch.Annos[d.F]), provenance(sch, req, d.F, d.Got))
					envInfo += fi
				}
				fail(d.Kind, "%s: %s%s (env %s)\n got: %x\nwant: %x", d.Path, d.Detail, fi, env, clipb(r.Out, 400), clipb(expBytes, 400))
			}
			w.Count("outputs_equal_to_model")
			r.Out = canon(nil, got)
		}
		// (3) the same request under every environment gives the same result
		if first == nil {
			rr := r
			first, firstEnv, firstCond = &rr, env, cond
		} else {
			if (first.Err == nil) != (r.Err == nil) || (r.Err == nil && !bytes.Equal(first.Out, r.Out)) {
				// either environment may carry the precondition of a known disagreement
				cond.LazyBody = cond.LazyBody || firstCond.LazyBody
				cond.LazyRead = cond.LazyRead || firstCond.LazyRead
				cond.HTTPConvNoOpt = cond.HTTPConvNoOpt || firstCond.HTTPConvNoOpt
				cond.OOMField = cond.OOMField || firstCond.OOMField
				cond.OOMBuf = cond.OOMBuf || firstCond.OOMBuf
				fail("env-dependent", "same request, different result:\n env A %s -> err=%v %x\n env B %s -> err=%v %x", firstEnv, first.Err, clipb(first.Out, 300), env, r.Err, clipb(r.Out, 300))
			}
			w.Count("cross_env_equal")
		}
	}
	w.sample = map[string]interface{}{"direction": "request", "idl_bytes": len(sch.Sch.IDL), "kinds": kindMask(sch.KindsUsed), "populated": kindMask(popMask), "body": hBodyNames[bodyKind],
		"options": fmt.Sprintf("%+v", opts), "flavour": flavour, "envs": nenv, "expect": hErrNames[experr]}
}

// provenance tells where a wrong value came from (which source of the field carries it).
func provenance(s *hSchema, r *hRequest, f *TField, got *TVal) string {
	if got == nil || !isScalar(f.T) && f.T.Kind != tLIST {
		return "?"
	}
	gb := string(canon(nil, got))
	for _, a := range s.Annos[f] {
		if sv := r.lookup(a); sv != nil && sv.Val != nil && sv.Val.T.Kind == f.T.Kind && string(canon(nil, sv.Val)) == gb {
			return hKindShort[a.Kind]
		}
	}
	if r.BodyDoc != nil {
		for _, fv := range r.BodyDoc.Fields {
			if fv.F == f && fv.V != nil && string(canon(nil, fv.V)) == gb {
				return "json-body-member"
			}
		}
	}
	if sv := r.traceback(f.Key()); sv != nil && string(canon(nil, sv.Val)) == gb {
		return "traceback"
	}
	if string(canon(nil, hZeroVal(f.T))) == gb {
		return "zero"
	}
	return "?"
}
