// Package simrt is the run-time half of the dynamicgo deterministic simulator.
//
// It is compiled twice: as verif/sim/simrt by the driver (for the shrinker and the tape) and,
// through a build overlay, as github.com/cloudwego/dynamicgo/internal/simrt inside the library,
// where the overlay generator rewrites every sync.Pool literal to simrt.Pool and inserts
// simrt.Yield at every function entry.
//
// Everything in this package that touches state shared by simulated tasks is //go:norace: the
// task hand-off is deliberately invisible to ThreadSanitizer (see sched.go), so the simulator's
// own bookkeeping must be invisible too.
package simrt

// Tape is the single source of every decision of a simulated run.
//
// In generate mode values come from a xoshiro256** PRNG seeded from one integer; every value
// handed out is recorded. In replay mode values come from a recorded list (reduced modulo the
// requested bound, 0 once the list is exhausted), which is what makes shrinking a pure edit of
// a []uint64.
type Tape struct {
	s      [4]uint64
	replay bool
	in     []uint64
	pos    int
	Rec    []uint64
	// Digest is an FNV-1a hash over every (bound, value) pair drawn and every Note.
	Digest uint64
	// Trace, when non-nil, receives a line per draw (label, bound, value).
	Trace func(label string, n, v uint64)
	Draws int
}

//go:norace
func splitmix(x *uint64) uint64 {
	*x += 0x9e3779b97f4a7c15
	z := *x
	z = (z ^ (z >> 30)) * 0xbf58476d1ce4e5b9
	z = (z ^ (z >> 27)) * 0x94d049bb133111eb
	return z ^ (z >> 31)
}

// NewTape returns a generating tape.
//
//go:norace
func NewTape(seed uint64) *Tape {
	t := &Tape{Digest: 0xcbf29ce484222325}
	x := seed
	for i := range t.s {
		t.s[i] = splitmix(&x)
	}
	return t
}

// ReplayTape returns a tape that replays vals.
//
//go:norace
func ReplayTape(vals []uint64) *Tape {
	return &Tape{replay: true, in: vals, Digest: 0xcbf29ce484222325}
}

//go:norace
func rotl(x uint64, k uint) uint64 { return (x << k) | (x >> (64 - k)) }

//go:norace
func (t *Tape) next() uint64 {
	r := rotl(t.s[1]*5, 7) * 9
	x := t.s[1] << 17
	t.s[2] ^= t.s[0]
	t.s[3] ^= t.s[1]
	t.s[1] ^= t.s[2]
	t.s[0] ^= t.s[3]
	t.s[2] ^= x
	t.s[3] = rotl(t.s[3], 45)
	return r
}

//go:norace
func (t *Tape) mix(v uint64) {
	d := t.Digest
	for i := 0; i < 8; i++ {
		d ^= v & 0xff
		d *= 0x100000001b3
		v >>= 8
	}
	t.Digest = d
}

// Draw returns a value in [0,n). n==0 or n==1 return 0 without consuming the tape.
//
//go:norace
func (t *Tape) Draw(n uint64, label string) uint64 {
	if n <= 1 {
		return 0
	}
	var v uint64
	if t.replay {
		if t.pos < len(t.in) {
			v = t.in[t.pos] % n
		}
		t.pos++
	} else {
		v = t.next() % n
	}
	t.Rec = append(t.Rec, v)
	t.Draws++
	t.mix(n)
	t.mix(v)
	if t.Trace != nil {
		t.Trace(label, n, v)
	}
	return v
}

// Note folds an observation (an operation result) into the digest without drawing.
//
//go:norace
func (t *Tape) Note(v uint64) { t.mix(v) }

// NoteBytes folds a byte string into the digest.
//
//go:norace
func (t *Tape) NoteBytes(b []byte) {
	d := t.Digest
	for _, c := range b {
		d ^= uint64(c)
		d *= 0x100000001b3
	}
	d ^= uint64(len(b))
	d *= 0x100000001b3
	t.Digest = d
}

// Intn returns an int in [0,n).
//
//go:norace
func (t *Tape) Intn(n int, label string) int {
	if n <= 1 {
		return 0
	}
	return int(t.Draw(uint64(n), label))
}

// Chance returns true with probability num/den. The zero draw is "false", so shrinking
// switches chances off.
//
//go:norace
func (t *Tape) Chance(num, den int, label string) bool {
	if num <= 0 {
		return false
	}
	v := t.Draw(uint64(den), label)
	return v >= uint64(den-num)
}

// Range returns an int in [lo,hi] (inclusive); lo is the simplest value.
//
//go:norace
func (t *Tape) Range(lo, hi int, label string) int {
	if hi <= lo {
		return lo
	}
	return lo + int(t.Draw(uint64(hi-lo+1), label))
}

// Exhausted reports whether a replaying tape has been read past its end.
//
//go:norace
func (t *Tape) Exhausted() bool { return t.replay && t.pos > len(t.in) }
