package simrt

import (
	"syscall"
	"unsafe"
)

// Placement of a harness-supplied buffer.
const (
	PlaceHeap       = iota // ordinary Go heap (make)
	PlaceCanary            // Go heap, cap followed by a canary zone that must stay intact
	PlaceGuardEnd          // end of the buffer's capacity flush against a PROT_NONE page
	PlaceGuardFront        // start of the buffer flush against a PROT_NONE page (preceding page)
	PlaceReadOnly          // whole buffer in PROT_READ pages, end flush against PROT_NONE
	NPlace
)

var PlaceNames = [NPlace]string{"heap", "canary", "guard_end", "guard_front", "read_only"}

const pageSize = 4096
const canaryLen = 64

// Buf is a harness-owned buffer with a known placement.
type Buf struct {
	B      []byte // len 0..cap as requested
	Place  int
	region []byte // whole mmap region (nil for heap placements)
	back   []byte // heap backing including the canary zone
	cap0   int
	pat    byte
}

// Alloc returns a buffer of exactly capacity c (len 0) with the given placement.
//
//go:norace
func Alloc(c int, place int, pat byte) *Buf {
	b := &Buf{Place: place, cap0: c, pat: pat}
	switch place {
	case PlaceHeap:
		b.B = make([]byte, 0, c)
	case PlaceCanary:
		b.back = make([]byte, c+canaryLen)
		for i := c; i < len(b.back); i++ {
			b.back[i] = pat
		}
		b.B = b.back[0:0:c]
	case PlaceGuardEnd, PlaceReadOnly:
		n := (c + pageSize - 1) / pageSize
		if n == 0 {
			n = 1
		}
		reg, err := syscall.Mmap(-1, 0, (n+1)*pageSize, syscall.PROT_READ|syscall.PROT_WRITE, syscall.MAP_ANON|syscall.MAP_PRIVATE)
		if err != nil {
			panic("simrt: mmap: " + err.Error())
		}
		if err := syscall.Mprotect(reg[n*pageSize:], syscall.PROT_NONE); err != nil {
			panic("simrt: mprotect: " + err.Error())
		}
		b.region = reg
		start := n*pageSize - c
		b.B = reg[start : start : start+c]
		if c == 0 {
			b.B = reg[start:start:start]
		}
	case PlaceGuardFront:
		n := (c + pageSize - 1) / pageSize
		if n == 0 {
			n = 1
		}
		reg, err := syscall.Mmap(-1, 0, (n+1)*pageSize, syscall.PROT_READ|syscall.PROT_WRITE, syscall.MAP_ANON|syscall.MAP_PRIVATE)
		if err != nil {
			panic("simrt: mmap: " + err.Error())
		}
		if err := syscall.Mprotect(reg[:pageSize], syscall.PROT_NONE); err != nil {
			panic("simrt: mprotect: " + err.Error())
		}
		b.region = reg
		b.B = reg[pageSize : pageSize : pageSize+c]
	}
	return b
}

// AllocData places a copy of data (len == cap == len(data)).
//
//go:norace
func AllocData(data []byte, place int, pat byte) *Buf {
	b := Alloc(len(data), place, pat)
	b.B = b.B[:len(data)]
	copy(b.B, data)
	if place == PlaceReadOnly && b.region != nil {
		n := len(b.region)/pageSize - 1
		if err := syscall.Mprotect(b.region[:n*pageSize], syscall.PROT_READ); err != nil {
			panic("simrt: mprotect ro: " + err.Error())
		}
	}
	return b
}

// CanaryOK reports whether the canary zone behind the capacity is intact.
//
//go:norace
func (b *Buf) CanaryOK() bool {
	if b.Place != PlaceCanary {
		return true
	}
	for i := b.cap0; i < len(b.back); i++ {
		if b.back[i] != b.pat {
			return false
		}
	}
	return true
}

// Owns reports whether s still points into this buffer's original backing store.
//
//go:norace
func (b *Buf) Owns(s []byte) bool {
	if cap(s) == 0 {
		return false
	}
	p := uintptr(unsafe.Pointer(&s[:1][0]))
	var base []byte
	switch b.Place {
	case PlaceHeap:
		return false
	case PlaceCanary:
		base = b.back
	default:
		base = b.region
	}
	if len(base) == 0 {
		return false
	}
	lo := uintptr(unsafe.Pointer(&base[0]))
	return p >= lo && p < lo+uintptr(len(base))
}

// Free releases an mmap'd buffer. The caller guarantees nothing references it any more.
//
//go:norace
func (b *Buf) Free() {
	if b.region != nil {
		syscall.Munmap(b.region)
		b.region = nil
		b.B = nil
	}
}

// MakeBytes replaces make([]byte, l, c) at the library's output-buffer growth sites (overlay
// rewrite). When the current world asks for it (GuardGrowth), the grown buffer has exactly the
// requested length and capacity but ends flush against a PROT_NONE page, so that a write past
// its capacity (by Go or by assembly) faults at once instead of silently corrupting the heap.
// A smaller grant than requested is never made.
//
//go:norace
func MakeBytes(l, c int) []byte {
	w := cur
	if w == nil || !w.GuardGrowth || c <= 0 || c > 64<<20 {
		return make([]byte, l, c)
	}
	b := Alloc(c, PlaceGuardEnd, 0)
	w.grown = append(w.grown, b)
	w.Stats[StatGuardGrowth]++
	return b.B[:l]
}

// releaseGrown unmaps the growth buffers of a finished world.
//
//go:norace
func (w *World) releaseGrown() {
	for _, b := range w.grown {
		b.Free()
	}
	w.grown = nil
}
