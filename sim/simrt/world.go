package simrt

import (
	"runtime"
	"sync"
	"sync/atomic"
)

// World is the environment of one simulated run. Exactly one world is current at a time.
type World struct {
	Tape *Tape

	// ---- yields
	Steps     uint64 // yields passed in this world
	SiteHits  []uint32
	GCNum     int // chance num/GCDen of a GC+clobber at a yield (0 = never)
	GCDen     int
	GCBudget  int // remaining injected GCs
	GCFired   int
	GCOnly    []uint32 // if non-empty: GC only at these sites
	StepLimit uint64   // if >0 and Steps exceeds it: panic(StepLimitExceeded)

	// ---- pools
	pools        []*poolState
	PoolFreshPct int // percent of Gets (with a non-empty free list) that still return a fresh object
	PoolNoPoison bool
	Stats        [NStat]uint64
	Violations   []string // discipline violations detected by the runtime (double Put, use after Put)

	// ---- scheduler
	turn       int
	live       []bool
	nlive      int
	SwitchNum  int
	SwitchDen  int
	SwitchPool bool // always consider switching at pool operations
	Switches   int
	SchedHash  uint64
	// GuardGrowth: buffers allocated at the library's growth sites end flush against an unmapped page
	GuardGrowth bool
	grown       []*Buf
	HashSeed    uint64 // seed of the string hash seam (tape-chosen by the harness; 0 = default)
	curOp       int    // harness-maintained: id of the operation that is running (for provenance)
	Events      func(s string)
}

const (
	StatPoolFresh = iota
	StatPoolRecycled
	StatPoolRecycledOld // recycled, not the most recently freed
	StatPoolPut
	StatPoisonVerified
	StatShaped
	StatGC
	StatSwitch
	StatGuardGrowth
	NStat
)

var StatNames = [NStat]string{"pool_fresh", "pool_recycled", "pool_recycled_not_latest", "pool_put", "poison_verified", "fresh_shaped", "gc_clobber", "task_switch", "guarded_growth_buffers"}

type StepLimitExceeded struct{ Steps uint64 }

var cur *World

// Begin makes w the current world.
//
//go:norace
func Begin(w *World) {
	if w.PoolFreshPct == 0 {
		w.PoolFreshPct = 20
	}
	w.turn = -1
	w.SchedHash = 0xcbf29ce484222325
	w.SiteHits = make([]uint32, NumSites())
	cur = w
}

// End detaches the current world. Pooled objects of the world are dropped.
//
//go:norace
func End() {
	if cur != nil {
		cur.releaseGrown()
	}
	cur = nil
}

//go:norace
func Cur() *World { return cur }

// HashSeam reports whether a world is active (string hashing is then owned by the simulator).
//
//go:norace
func HashSeam() bool { return cur != nil }

// StrHash replaces runtime.strhash (per-process random seed) inside a world: FNV-1a keyed by the
// world's HashSeed, never 0 (the library reserves 0).
//
//go:norace
func StrHash(s string) uint64 {
	h := uint64(0xcbf29ce484222325)
	if w := cur; w != nil {
		h ^= w.HashSeed
	}
	for i := 0; i < len(s); i++ {
		h ^= uint64(s[i])
		h *= 0x100000001b3
	}
	if h == 0 {
		return 1
	}
	return h
}

// DropPools forgets every parked object: the next Get of every pool is fresh (pristine environment).
//
//go:norace
func (w *World) DropPools() {
	for i := range w.pools {
		w.pools[i] = nil
	}
}

//go:norace
func (w *World) SetOp(id int) { w.curOp = id }

// ---------------------------------------------------------------------------------------------
// Yield

var numSites int

//go:norace
func NumSites() int {
	if numSites == 0 {
		numSites = len(SiteNames)
	}
	return numSites
}

// Yield is inserted by the overlay generator as the first statement of every library function.
//
//go:norace
func Yield(site uint32) {
	w := cur
	if w == nil {
		return
	}
	w.yield(site, false)
}

// Probe is inserted at selected case clauses; it only counts.
//
//go:norace
func Probe(site uint32) {
	w := cur
	if w == nil {
		return
	}
	if int(site) < len(w.SiteHits) {
		w.SiteHits[site]++
	}
}

//go:norace
func (w *World) yield(site uint32, poolOp bool) {
	w.Steps++
	if int(site) < len(w.SiteHits) {
		w.SiteHits[site]++
	}
	if w.StepLimit > 0 && w.Steps > w.StepLimit {
		w.StepLimit = 0
		panic(StepLimitExceeded{w.Steps})
	}
	if w.GCNum > 0 && w.GCBudget > 0 {
		ok := len(w.GCOnly) == 0
		for _, s := range w.GCOnly {
			if s == site {
				ok = true
			}
		}
		if ok && w.Tape.Chance(w.GCNum, w.GCDen, "gc") {
			w.GCBudget--
			w.GCFired++
			w.Stats[StatGC]++
			if w.Events != nil {
				w.Events("GC+clobber at " + SiteName(site))
			}
			runtime.GC()
			runtime.GC()
		}
	}
	if w.nlive > 1 {
		if (w.SwitchNum > 0 && w.Tape.Chance(w.SwitchNum, w.SwitchDen, "switch")) || (poolOp && w.SwitchPool && w.Tape.Chance(1, 2, "switch@pool")) {
			w.switchFrom(site)
		}
	}
}

//go:norace
func SiteName(site uint32) string {
	if int(site) < len(SiteNames) {
		return SiteNames[site]
	}
	return "?"
}

// ---------------------------------------------------------------------------------------------
// Scheduler: real goroutines, exactly one runnable, hand-off through a plain variable so that
// ThreadSanitizer sees the tasks as unsynchronised.

//go:norace
func (w *World) waitTurn(me int) {
	for w.turn != me {
		runtime.Gosched()
	}
}

//go:norace
func (w *World) pickOther(me int) int {
	// choose among live tasks other than me
	n := 0
	for i, l := range w.live {
		if l && i != me {
			n++
		}
	}
	if n == 0 {
		return -1
	}
	k := w.Tape.Intn(n, "sched.pick")
	for i, l := range w.live {
		if l && i != me {
			if k == 0 {
				return i
			}
			k--
		}
	}
	return -1
}

//go:norace
func (w *World) switchFrom(site uint32) {
	me := w.turn
	nx := w.pickOther(me)
	if nx < 0 {
		return
	}
	w.Switches++
	w.Stats[StatSwitch]++
	h := w.SchedHash
	h ^= uint64(site)<<8 | uint64(nx)
	h *= 0x100000001b3
	w.SchedHash = h
	if w.Events != nil {
		w.Events("switch T" + itoa(me) + "->T" + itoa(nx) + " at " + SiteName(site))
	}
	w.turn = nx
	w.waitTurn(me)
}

//go:norace
func (w *World) taskDone(me int) {
	w.live[me] = false
	w.nlive--
	nx := w.pickOther(me)
	w.turn = nx // -1 when nobody is left: control returns to the main goroutine
}

// RunTasks runs fns as simulated tasks under the tape-driven scheduler and returns when all
// have finished. A panic in a task is captured and returned (index, value).
func (w *World) RunTasks(fns []func()) (panicked int, pv interface{}) {
	n := len(fns)
	w.setupTasks(n)
	panicked = -1
	var wg sync.WaitGroup
	var mu sync.Mutex
	for i := 0; i < n; i++ {
		wg.Add(1)
		i := i
		go func() {
			defer wg.Done()
			w.waitTurn(i)
			defer func() {
				if r := recover(); r != nil {
					mu.Lock()
					if panicked < 0 {
						panicked, pv = i, r
					}
					mu.Unlock()
				}
				w.taskDone(i)
			}()
			fns[i]()
		}()
	}
	w.startTasks()
	wg.Wait()
	w.turn = -1
	return
}

//go:norace
func (w *World) setupTasks(n int) {
	w.live = make([]bool, n)
	for i := range w.live {
		w.live[i] = true
	}
	w.nlive = n
	w.turn = -2
}

//go:norace
func (w *World) startTasks() {
	w.turn = w.Tape.Intn(len(w.live), "sched.first")
}

//go:norace
func itoa(i int) string {
	if i == 0 {
		return "0"
	}
	neg := i < 0
	if neg {
		i = -i
	}
	var b [20]byte
	p := len(b)
	for i > 0 {
		p--
		b[p] = byte('0' + i%10)
		i /= 10
	}
	if neg {
		p--
		b[p] = '-'
	}
	return string(b[p:])
}

// ---------------------------------------------------------------------------------------------
// Pools

// PoolHook lets the harness (which can see the library's types) shape fresh objects, poison
// what the library relinquished on Put and verify the poison on the next Get.
type PoolHook struct {
	// Shape is applied to every object returned by New (e.g. re-slice a cache to a tape-chosen capacity).
	Shape func(w *World, x interface{})
	// Poison overwrites the memory the library gave up. It returns a token that Verify receives.
	Poison func(w *World, x interface{}) uint64
	// Verify returns a non-empty description if the object was written to after Put.
	Verify func(w *World, x interface{}, token uint64) string
}

var hooks = map[string]*PoolHook{}

// RegisterPoolHook is called from the harness' init.
func RegisterPoolHook(name string, h *PoolHook) { hooks[name] = h }

var poolNames []string

// Pool has the method set of sync.Pool that the library uses.
type Pool struct {
	Name string
	New  func() interface{}
	real sync.Pool
	idx  int32 // index+1 in World.pools
	hook *PoolHook
	init bool
}

// maxParked bounds the number of objects parked per pool.
const maxParked = 48

type freeObj struct {
	x      interface{}
	op     int
	token  uint64
	poison bool
	edge   *int32
}

type poolState struct {
	p    *Pool
	free []freeObj
	gets int
	puts int
}

var (
	regMu   sync.Mutex
	allPool []*Pool
)

func (p *Pool) register() {
	regMu.Lock()
	if !p.init {
		allPool = append(allPool, p)
		p.idx = int32(len(allPool))
		p.hook = hooks[p.Name]
		p.init = true
	}
	regMu.Unlock()
}

// PoolNames lists every pool that has been used at least once.
func PoolNames() []string {
	regMu.Lock()
	defer regMu.Unlock()
	var r []string
	for _, p := range allPool {
		r = append(r, p.Name)
	}
	return r
}

//go:norace
func (w *World) state(p *Pool) *poolState {
	for len(w.pools) < int(p.idx) {
		w.pools = append(w.pools, nil)
	}
	s := w.pools[p.idx-1]
	if s == nil {
		s = &poolState{p: p}
		w.pools[p.idx-1] = s
	}
	return s
}

//go:norace
func (p *Pool) Get() interface{} {
	w := cur
	if w == nil {
		v := p.real.Get()
		if v == nil && p.New != nil {
			v = p.New()
		}
		return v
	}
	if !p.init {
		p.register()
	}
	w.yield(poolSite(p, 0), true)
	s := w.state(p)
	s.gets++
	if len(s.free) > 0 && !w.Tape.Chance(w.PoolFreshPct, 100, "pool.fresh") {
		// recycle: 0 = most recently freed
		k := 0
		if len(s.free) > 1 && w.Tape.Chance(1, 3, "pool.old") {
			k = w.Tape.Intn(len(s.free), "pool.which")
		}
		i := len(s.free) - 1 - k
		fo := s.free[i]
		// NOTICE: no copy() here - runtime.slicecopy is race-instrumented even when called from a
		// norace function, and the free list is deliberately shared between tasks without synchronisation
		for j := i; j+1 < len(s.free); j++ {
			s.free[j] = s.free[j+1]
		}
		s.free[len(s.free)-1] = freeObj{}
		s.free = s.free[:len(s.free)-1]
		w.Stats[StatPoolRecycled]++
		if k > 0 {
			w.Stats[StatPoolRecycledOld]++
		}
		atomic.LoadInt32(fo.edge) // the one happens-before edge a real pool provides: Put -> Get of the same object
		if fo.poison && p.hook != nil && p.hook.Verify != nil {
			if msg := p.hook.Verify(w, fo.x, fo.token); msg != "" {
				w.Violations = append(w.Violations, "use-after-Put "+p.Name+": "+msg+" (freed by op "+itoa(fo.op)+")")
			}
			w.Stats[StatPoisonVerified]++
		}
		if w.Events != nil {
			w.Events("Get(" + p.Name + ") -> recycled #" + itoa(k) + " freed by op " + itoa(fo.op))
		}
		return fo.x
	}
	w.Stats[StatPoolFresh]++
	var v interface{}
	if p.New != nil {
		v = p.New()
	}
	if v != nil && p.hook != nil && p.hook.Shape != nil {
		p.hook.Shape(w, v)
		w.Stats[StatShaped]++
	}
	if w.Events != nil {
		w.Events("Get(" + p.Name + ") -> fresh")
	}
	return v
}

//go:norace
func (p *Pool) Put(x interface{}) {
	w := cur
	if w == nil {
		p.real.Put(x)
		return
	}
	if x == nil {
		return
	}
	if !p.init {
		p.register()
	}
	s := w.state(p)
	s.puts++
	w.Stats[StatPoolPut]++
	for i := range s.free {
		if sameObj(s.free[i].x, x) {
			w.Violations = append(w.Violations, "double-Put "+p.Name+" (first by op "+itoa(s.free[i].op)+", again by op "+itoa(w.curOp)+")")
			return
		}
	}
	fo := freeObj{x: x, op: w.curOp, edge: new(int32)}
	if !w.PoolNoPoison && p.hook != nil && p.hook.Poison != nil {
		fo.token = p.hook.Poison(w, x)
		fo.poison = true
	}
	atomic.StoreInt32(fo.edge, 1)
	if len(s.free) >= maxParked {
		// bounded like a real pool (which drops objects at GC): forget the oldest parked object
		for j := 0; j+1 < len(s.free); j++ {
			s.free[j] = s.free[j+1]
		}
		s.free[len(s.free)-1] = fo
	} else {
		s.free = append(s.free, fo)
	}
	if w.Events != nil {
		w.Events("Put(" + p.Name + ")")
	}
	w.yield(poolSite(p, 1), true)
}

// FreeCount returns how many objects are parked in the named pool of the current world.
//
//go:norace
func (w *World) FreeCount(name string) int {
	for _, s := range w.pools {
		if s != nil && s.p.Name == name {
			return len(s.free)
		}
	}
	return 0
}

// VerifyAllPoison checks the poison of every parked object (end-of-world sweep).
//
//go:norace
func (w *World) VerifyAllPoison() {
	for _, s := range w.pools {
		if s == nil || s.p.hook == nil || s.p.hook.Verify == nil {
			continue
		}
		for _, fo := range s.free {
			if fo.poison {
				if msg := s.p.hook.Verify(w, fo.x, fo.token); msg != "" {
					w.Violations = append(w.Violations, "use-after-Put "+s.p.Name+": "+msg+" (freed by op "+itoa(fo.op)+")")
				}
				w.Stats[StatPoisonVerified]++
			}
		}
	}
}

//go:norace
func sameObj(a, b interface{}) bool {
	// Pool payloads are pointers (or pointer-shaped); interface equality on pointers is identity.
	defer func() { recover() }()
	return a == b
}

// pool pseudo-sites live after the generated sites: 2 per pool (Get, Put), allocated lazily.
//
//go:norace
func poolSite(p *Pool, k int) uint32 {
	return uint32(len(SiteNames)) + uint32(p.idx-1)*2 + uint32(k)
}
