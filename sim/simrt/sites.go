package simrt

// SiteNames maps yield-site ids to "pkg.Func". The overlay generator replaces this file with
// the table of the sites it inserted; the stub keeps the package buildable on its own.
var SiteNames = []string{}
