package simrt

// Shrink minimises a recorded tape while test keeps returning true ("still the same violation
// class"). It is a plain edit search over []uint64: delete spans, zero spans, lower single
// values. test is called at most budget times. The result is never longer than the input.
func Shrink(tape []uint64, budget int, test func([]uint64) bool) (best []uint64, tried int) {
	best = append([]uint64(nil), tape...)
	try := func(c []uint64) bool {
		if tried >= budget {
			return false
		}
		tried++
		if test(c) {
			best = append(best[:0:0], c...)
			return true
		}
		return false
	}
	// drop the tail that the run never needed (trailing values are implied zeros)
	trim := func() {
		for len(best) > 0 && best[len(best)-1] == 0 {
			best = best[:len(best)-1]
		}
	}
	trim()
	improved := true
	for improved && tried < budget {
		improved = false
		// 1. delete spans
		for _, sz := range []int{64, 16, 8, 4, 2, 1} {
			for i := 0; i+sz <= len(best) && tried < budget; {
				c := append(append([]uint64(nil), best[:i]...), best[i+sz:]...)
				if try(c) {
					improved = true
				} else {
					i += sz
				}
			}
		}
		// 2. zero spans
		for _, sz := range []int{16, 4, 1} {
			for i := 0; i+sz <= len(best) && tried < budget; i += sz {
				allz := true
				for _, v := range best[i : i+sz] {
					if v != 0 {
						allz = false
					}
				}
				if allz {
					continue
				}
				c := append([]uint64(nil), best...)
				for j := i; j < i+sz; j++ {
					c[j] = 0
				}
				if try(c) {
					improved = true
				}
			}
		}
		// 3. lower single values
		for i := 0; i < len(best) && tried < budget; i++ {
			v := best[i]
			if v == 0 {
				continue
			}
			for _, nv := range []uint64{v / 2, v - 1} {
				if nv >= v {
					continue
				}
				c := append([]uint64(nil), best...)
				c[i] = nv
				if try(c) {
					improved = true
					break
				}
			}
		}
		trim()
	}
	return best, tried
}
