#!/bin/bash
# usage: seedrun.sh <seeded-id> <prop> [extra dynsim args]
# applies a seeded change to /repo, runs one check against it, restores /repo. Prints one summary line.
export GOFLAGS=-mod=mod GOPROXY=off GOSUMDB=off GOTOOLCHAIN=local
id=$1; prop=$2; shift 2
cd /verif
mkdir -p .build
if [ -z "$SEEDRUN_LOCKED" ]; then export SEEDRUN_LOCKED=1 VERIF_NOLOCK=1; exec flock .build/repo.lock "$0" "$id" "$prop" "$@"; fi
if [ -n "$(git -C /repo status --porcelain)" ]; then echo "REPO DIRTY - abort"; exit 2; fi
git -C /repo apply /verif/seeded/$id/patch.diff || { echo "$id: patch does not apply"; exit 2; }
start=$(date +%s)
bin/dynsim check --prop $prop --tier quick --no-evidence "$@" > /tmp/seedrun.$id.$prop.log 2>&1; rc=$?
end=$(date +%s)
git -C /repo checkout -- . ; git -C /repo clean -qfd
cls=$(grep -a "class=" /tmp/seedrun.$id.$prop.log | head -3 | sed 's/^ *//' | cut -c1-110 | tr '\n' ';')
echo "$id vs $prop: exit=$rc $((end-start))s $cls"
