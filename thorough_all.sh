#!/bin/bash
# usage: thorough_all.sh <seed> [props...]   - runs the thorough tier of every (or the given) check with VERIF_SEED=<seed>,
# one after the other (each uses all cores); logs under /verif/logs/ (not committed), one summary line per check.
export GOFLAGS=-mod=mod GOPROXY=off GOSUMDB=off GOTOOLCHAIN=local
seed=$1; shift
props=${@:-C09 C02 C16 C04 C05 C12 C06 C03 C18 C17 C08 C10}
cd /verif; mkdir -p logs
for p in $props; do
  s=$(date +%s)
  VERIF_SEED=$seed bin/dynsim check --prop $p --tier thorough > logs/thorough.$p.$seed.log 2>&1; rc=$?
  e=$(date +%s)
  echo "$(date +%H:%M) $p seed=$seed exit=$rc $((e-s))s $(grep -ac KNOWN-FINDING logs/thorough.$p.$seed.log) known, $(grep -ac '^VIOLATION' logs/thorough.$p.$seed.log) violations" >> logs/thorough.summary
done
